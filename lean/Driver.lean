import MimeModel.Model.Detect
import MimeModel.Model.MediaType
import MimeModel.Model.MediaTypeU
import MimeModel.Model.XmlFull
import MimeModel.Model.Reader
import MimeModel.Gen.Tree
import MimeModel.Spec.All
import MimeModel.Spec.Json
import MimeModel.Spec.Zip
import MimeModel.Model.XmlTok
import MimeModel.Model.HtmlTok
import MimeModel.Model.Closed
import MimeModel.Model.Heap
import MimeModel.Model.HeapAbs
/-
  Line-protocol driver for the correspondence check (core Lean only; compiled).
  Input : one operation per line, `op args... => go-result`
  Output: one status line per input line:
     OK | DIFF <what> model=<..> | SPEC <clause> | SKIP <why> | BAD <why>
-/
open Mime

def bhex (b : Bytes) : String := tohex b

def parseNat (s : String) : Option Nat := s.toNat?

def showOB : Option Bool → String
  | some true => "T" | some false => "F" | none => "PANIC"

/-- `t1,t2,...` with `ti = name:k=v&k=v` (all hex, "-" = empty); "~" = no tags -/
def parseTags (s : String) : Option (List Charset.Tag) :=
  if s == "~" then some [] else
  (s.splitOn ",").mapM fun t =>
    match t.splitOn ":" with
    | [n] => (unhex n).map fun nb => { name := nb, attrs := [] }
    | [n, as] => do
      let nb ← unhex n
      let attrs ← (as.splitOn "&").mapM fun a =>
        match a.splitOn "=" with
        | [k, v] => do let kb ← unhex k; let vb ← unhex v; pure (kb, vb)
        | _ => none
      pure { name := nb, attrs := attrs }
    | _ => none

def parseInst (s : String) : Option (Option Bytes) :=
  if s == "~" then some none else (unhex s).map some

/-- a generic labelled tree received from the harness: preorder `label/nchildren` list -/
partial def buildTree (toks : List (String × Nat)) : Option (Tree String × List (String × Nat)) :=
  match toks with
  | [] => none
  | (l, n) :: rest =>
    let rec kids (k : Nat) (ts : List (String × Nat)) (acc : List (Tree String)) :
        Option (List (Tree String) × List (String × Nat)) :=
      match k with
      | 0 => some (acc.reverse, ts)
      | k + 1 => match buildTree ts with
        | none => none
        | some (c, ts') => kids k ts' (c :: acc)
    match kids n rest [] with
    | none => none
    | some (cs, rest') => some (.node l cs, rest')

instance : Inhabited (Tree (String × Nat) × Nat) := ⟨(.node ("", 0) [], 0)⟩

/-- number the nodes of a tree in preorder -/
partial def numberAux (t : Tree String) (k : Nat) : Tree (String × Nat) × Nat :=
  match t with
  | .node l cs =>
    let rec go (cs : List (Tree String)) (k : Nat) (acc : List (Tree (String × Nat))) : List (Tree (String × Nat)) × Nat :=
      match cs with
      | [] => (acc.reverse, k)
      | c :: r => let (c', k') := numberAux c k; go r k' (c' :: acc)
    let (cs', k') := go cs (k + 1) []
    (.node (l, k) cs', k')

def numberTree (t : Tree String) : Tree (String × Nat) := (numberAux t 0).1

/-- `mime|ext|aliases` -> `mime|ext` -/
def mimeExtOf (l : String) : String :=
  match l.splitOn "|" with
  | m :: e :: _ => m ++ "|" ++ e
  | _ => l

def infoLabel (i : Info) : String :=
  bhex i.mime ++ "|" ++ bhex i.ext ++ "|" ++ String.intercalate "+" (i.aliases.map bhex)

mutual
partial def dumpTree (t : Tree Info) : List String :=
  match t with
  | .node a cs => (infoLabel a ++ "/" ++ toString cs.length) :: dumpList cs
partial def dumpList (cs : List (Tree Info)) : List String :=
  match cs with
  | [] => []
  | c :: r => dumpTree c ++ dumpList r
end

/-- model of a sequence of Extend calls (same script syntax as the harness) -/
def applyScript (script : String) (T : Tree Info) : Option (Tree Info) :=
  if script == "~" then some T else
  let calls := script.splitOn ";"
  let rec go (cs : List String) (k : Nat) (T : Tree Info) : Option (Tree Info) :=
    match cs with
    | [] => some T
    | c :: rest =>
      match c.splitOn ":" with
      | [path, pred, mh, eh, al] => do
        let mime ← unhex mh
        let ext ← unhex eh
        let aliases ← if al == "~" then some [] else (al.splitOn "+").mapM unhex
        let idxs ← if path == "r" then some [] else (path.splitOn ".").mapM String.toNat?
        let node : Tree Info := .node { name := s!"x#{k}", detName := pred, mime := mime, ext := ext,
                                        aliases := aliases, det := .custom .unknown } []
        let T' ← Tree.extendAt node idxs T
        go rest (k + 1) T'
      | _ => none
  go calls 0 T

structure St where
  dummy : Unit := ()

def extOfVerdicts (flat : List Info) (verd : List Char) (toks : List Charset.Tag) (inst : Option Bytes) : Ext :=
  { cust := fun _ _ _ => false, htmlToks := fun _ => toks, xmlInst := fun _ => inst }

/-- verdict lookup by position in the flattened tree -/
def verdictOf (names : List String) (verd : List Char) (n : String) : Bool :=
  match (names.zip verd).find? (fun p => p.1 == n) with
  | some (_, c) => c == 'T'
  | none => false

/-- `m1|e1,m2|e2,... leafhex[ MODIFIED]` as printed by the harness -/
def parseGoWalk (s : String) : Option (List (Bytes × Bytes) × Bytes) :=
  match s.splitOn " " with
  | c :: leaf :: _ => do
    let ch ← (c.splitOn ",").mapM fun e =>
      match e.splitOn "|" with
      | [m, x] => do let mb ← unhex m; let xb ← unhex x; pure (mb, xb)
      | _ => none
    let lf ← unhex leaf
    pure (ch, lf)
  | _ => none

def showParse (r : Bytes × List (Bytes × Bytes) × MT.PErr) : String :=
  let ps := r.2.1
  -- Go's map: later duplicates (equal values) collapse; print sorted by key
  let dedup := ps.foldl (fun acc p => if acc.any (fun q => q.1 == p.1) then acc else acc ++ [p]) []
  let sorted := dedup.toArray.qsort (fun a b => bhex a.1 < bhex b.1) |>.toList
  let kv := if sorted.isEmpty then "~" else String.intercalate "&" (sorted.map fun p => bhex p.1 ++ "=" ++ bhex p.2)
  let cls := match r.2.2 with
    | .none => "none" | .invalidParam => "invalidParam" | .noType => "noType" | .duplicate => "duplicate"
  bhex r.1 ++ "|" ++ kv ++ "|" ++ cls

def isAsciiBytes (b : Bytes) : Bool := b.all (· < 0x80)

/-- the start tags computed by the tokenizer model against the ones the real x/net/html tokenizer reported;
    character references in attribute values included (Model/HtmlUnescape.lean) -/
def tagsDiff (h : Bytes) (goTags : List Charset.Tag) : String :=
  let mt := HtmlTok.startTagsFull h
  if mt.map (fun t => (t.name, t.attrs)) == goTags.map (fun t => (t.name, t.attrs)) then ""
  else s!"DIFF htmltok model-tags={mt.length} go-tags={goTags.length}"

def showInst : Option Bytes → String
  | none => "~"
  | some b => bhex b

def chainStr (c : List Info) : String :=
  String.intercalate "," (c.map fun i => bhex i.mime ++ "|" ++ bhex i.ext)

/-- the limit changes in the middle of a detection (`limflip`: during DetectReader's read; `matchflip`:
    during the tree walk): the answer must be the sequential answer for one of the two limits -/
def flipJudge (goRes : String) : String :=
  match goRes.splitOn " " with
  | [ecls, got, a, b] =>
    let jsonHex := bhex (ofString "application/json")
    let isJ : String → Bool := fun r => (r.splitOn jsonHex).length > 1
    if ecls != "nil" then "SPEC C05:unexpected-error-class"
    else if got == a || got == b then "OK"
    else "SPEC C06:result-is-not-a-sequential-result-for-either-limit ; SPEC C03:path-is-not-the-first-match-path-for-either-limit"
      ++ (if isJ a && isJ b && !isJ got then " ; SPEC C08:json-document-not-reported-when-the-limit-changes-during-detection" else "")
  | _ => "SPEC C01:no-result(" ++ goRes ++ ")"

/-- the hypotheses of `C19.layout_forward` (all decidable), for the first entry `e1`, the entries
    `mid` in front of the marker entry `em` -/
def layoutHyp (e1 : Spec.Zip.Entry) (mid : List Spec.Zip.Entry) (em : Spec.Zip.Entry) (total : Nat) (mso : Bool) : Bool :=
  decide (∀ e ∈ e1 :: mid ++ [em], e.WF) && decide (∀ e ∈ e1 :: mid, e.Clean) && decide (∀ e ∈ mid, e.Realistic) &&
  decide (mid.length ≤ 4) &&
  decide (e1.csizeField + 49 ≤ 30 + e1.name.length + e1.extra.length + e1.data.length + e1.desc.length) &&
  decide (total < 4294967296) && (!mso || msoSkipFiles.any (fun sf => hasPrefix e1.name sf))

/-- `ziplayout`: (1) the layout specification `Spec.Zip.archive` reproduces the bytes the real writer
    produced; (2) whenever the hypotheses of `C19.layout_forward` hold for a marker, the real
    detector must have answered true (the theorem, replayed on the implementation) -/
def zipLayoutJudge (raw : Bytes) (goRes : String) : String :=
  match goRes.splitOn " " with
  | ["!"] => "SKIP not-a-readable-zip"
  | [verd, ents, tailH] =>
    let es : List Spec.Zip.Entry := if ents == "~" then [] else (ents.splitOn ";").filterMap fun e =>
      match (e.splitOn "|").map (fun h => if h == "-" then some [] else unhex h) with
      | [some f, some n, some x, some d, some s] => some ⟨f, n, x, d, s⟩
      | _ => none
    let tail := if tailH == "-" then [] else (unhex tailH).getD []
    if Spec.Zip.archive es tail != raw then "DIFF ziplayout spec-image-differs-from-writer" else
    let checks : List (Det × Nat) := [(Gen.d_Docx, 0), (Gen.d_Xlsx, 1), (Gen.d_Pptx, 2), (Gen.d_Jar, 3)]
    let v := verd.toList
    let bad := checks.filterMap fun (d, i) =>
      match d with
      | .expr (.prim (.zipContains sig mso)) =>
        (match es with
         | e1 :: restE =>
           -- the first entry after e1 whose name starts with the marker
           let mid := restE.takeWhile (fun e => !hasPrefix e.name sig)
           (match restE.drop mid.length with
            | em :: _ =>
              if layoutHyp e1 mid em raw.length mso && v.getD i '?' != 'T' then some s!"layout-theorem-{i}" else none
            | [] => none)
         | [] => none)
      | _ => none
    if bad.isEmpty then "OK" else "SPEC C19:marker-among-the-first-six-entries-not-found(" ++ String.intercalate "," bad ++ ")"
  | _ => "SPEC C01:no-result(" ++ goRes ++ ")"

/-! ### heap ops: the pointer-level model (Model/Heap.lean) replayed on the harness' script -/
namespace HeapOp
open Mime.Heap

def nameOf (tag : Char) : String := if tag == 'T' then "text/plain" else "x/" ++ tag.toString
def tagOf (name : String) : Char := if name == "text/plain" then 'T' else (name.toList.getD 2 '?')
def accOf (input : String) (a : String) : Bool := input.toList.contains (tagOf a)
def leafF (a : String) : String := if a == "text/plain" then "text/plain; charset=utf-8" else a
def optId : Option Ptr → String
  | none => "-" | some p => toString p
def dump (h : Heap String) : String :=
  String.intercalate "," (h.map fun n =>
    n.info.replace " " "_" ++ "|" ++ optId n.parent ++ "|" ++ String.intercalate "." (n.children.map toString))

structure St where
  h : Heap String := []
  stack : List Ptr := []
  root : Option Ptr := none
  results : List Ptr := []
  obs : List String := []          -- reversed
  chains : List (Nat × String) := []   -- result index ↦ the chain seen when it was returned

def digits (s : String) : List Nat := s.toList.map (fun c => c.toNat - '0'.toNat)

/-- one token of the script on the model; `none` = malformed script -/
def step (st : St) (tok : String) : Option St :=
  match tok.toList with
  | [] => none
  | 'N' :: [tag, k] =>
    let k := k.toNat - '0'.toNat
    if st.root.isSome || k > st.stack.length then none else
    let kids := st.stack.drop (st.stack.length - k)
    let (h', m) := newMIME st.h (nameOf tag) kids
    some { st with h := h', stack := st.stack.take (st.stack.length - k) ++ [m], obs := (toString m ++ "@" ++ dump h') :: st.obs }
  | c :: rest =>
    let arg := String.ofList rest
    let root? := match st.root with
      | some r => some r
      | none => match st.stack with | [r] => some r | _ => none
    match root? with
    | none => none
    | some root =>
    let st := { st with root := some root }
    let fuel := st.h.length + 1
    let out (st : St) (res : String) : Option St := some { st with obs := (res ++ "@" ++ dump st.h) :: st.obs }
    match c with
    | 'E' =>
      match arg.splitOn ":" with
      | [path, tg] =>
        match tg.toList with
        | [tag] =>
          match nodeAt st.h root (digits path) with
          | none => out st "nopath"
          | some m => match extend st.h m (nameOf tag) with
            | none => out st "FAULT"
            | some (h', c) => out { st with h := h' } (toString c)
        | _ => none
      | _ => none
    | 'X' =>
      match arg.splitOn ":" with
      | [k, tg] =>
        match tg.toList, k.toNat? with
        | [tag], some k =>
          match st.results[k]? with
          | none => out st "noresult"
          | some m => match extend st.h m (nameOf tag) with
            | none => out st "FAULT"
            | some (h', c) => out { st with h := h' } (toString c)
        | [_], none => out st "noresult"
        | _, _ => none
      | _ => none
    | 'M' =>
      match matchH (accOf arg) leafF st.h root fuel with
      | .ok (h', r) =>
        let ch := match parentChain h' r (h'.length + 1) with
          | some l => String.intercalate "<" (l.map (·.replace " " "_"))
          | none => "NOCHAIN"
        out { st with h := h', results := st.results ++ [r], chains := st.chains ++ [(st.results.length, ch)] } (toString r)
      | .fault => out st "FAULT"
      | .oof => out st "OOF"
    | 'L' =>
      match rest with
      | [tag] =>
        match lookupH (· == nameOf tag) st.h root fuel with
        | some r => out st (optId r)
        | none => out st "FAULT"
      | _ => none
    | 'P' =>
      match arg.toNat? with
      | none => out st "noresult"
      | some k => match st.results[k]? with
        | none => out st "noresult"
        | some r => match parentChain st.h r (st.h.length + 1) with
          | some l => out st (String.intercalate "<" (l.map (·.replace " " "_")))
          | none => out st "NOCHAIN"
    | _ => none

/-- a heap dumped by the harness: `name|parent|k1.k2…` per node, `-` = nil, `?` = a pointer
    to a node the harness never saw (→ no heap) -/
def parseHeap (d : String) : Option (Heap String) :=
  if d == "" then some [] else
  (d.splitOn ",").mapM fun nd =>
    match nd.splitOn "|" with
    | [nm, par, kids] => do
      let p ← if par == "-" then some none else par.toNat?.map some
      let ks ← if kids == "" then some [] else (kids.splitOn ".").mapM (·.toNat?)
      pure { info := nm, parent := p, children := ks }
    | _ => none

/-- judges on the implementation's heap, through the abstraction function (`Model/HeapAbs.lean`:
    `abs h root = some t ↔ Rep h root none t`): (c) after every operation the heap at the root
    satisfies the representation invariant (parent pointers agree with children lists, no node is
    reachable twice); (d) a `match` result's chain is the first-match path of the tree that heap
    represents, with the parameter on the leaf -/
def invSpecs (script : String) (goObs : List String) : List String := Id.run do
  let toks := script.splitOn ","
  let nBuild := (toks.filter (·.startsWith "N")).length
  if nBuild == 0 then return []
  let rootId := (((goObs.getD (nBuild - 1) "").splitOn "@").headD "").toNat?
  match rootId with
  | none => return []
  | some root =>
  let mut out : List String := []
  let mut prev : Option (Tree String) := none
  for (tok, ob) in (toks.zip goObs).drop (nBuild - 1) do
    let res := (ob.splitOn "@").headD ""
    let d := (ob.splitOn "@").getD 1 ""
    match parseHeap d with
    | none => out := out ++ ["SPEC C03:tree-invariant-broken(pointer-to-unknown-node)", "SPEC C14:tree-invariant-broken(pointer-to-unknown-node)"]; prev := none
    | some gh =>
      match HeapAbs.abs gh root with
      | none => out := out ++ ["SPEC C03:tree-invariant-broken(parent-pointers-vs-children)", "SPEC C14:tree-invariant-broken(parent-pointers-vs-children)"]; prev := none
      | some t =>
        if tok.startsWith "M" then
          match prev, res.toNat? with
          | some t0, some r =>
            let input := (tok.drop 1).toString
            let want := applyHead leafF ((t0.walk (accOf input)).reverse)
            let got := parentChain gh r (gh.length + 1)
            if got != some (want.map (·.replace " " "_")) then
              out := out ++ ["SPEC C03:chain-not-first-match-path", "SPEC C02:chain-not-rooted"]
          | _, _ => pure ()
        prev := some t
  return out.eraseDups

def run (script : String) : Option St :=
  (script.splitOn ",").foldlM step {}

/-- number of nodes in a dump -/
def dumpSize (d : String) : Nat := if d == "" then 0 else (d.splitOn ",").length

/-- judges on the implementation's own observations (independent of the model's heap):
    (a) the nodes of a result are new: a `match` result and its ancestors have ids that did not
        exist before the call; (b) the chain a caller sees from an earlier result never changes -/
def specs (script : String) (goObs : List String) : List String := Id.run do
  let toks := script.splitOn ","
  let mut out : List String := []
  let mut prevSize := 0
  let mut chains : List String := []   -- chain of result k as first seen (from the dump at its M op)
  for (tok, ob) in toks.zip goObs do
    let res := (ob.splitOn "@").headD ""
    let d := (ob.splitOn "@").getD 1 ""
    let nodes := (d.splitOn ",").toArray
    let chainFrom (start : String) : String := Id.run do
      let mut cur := start
      let mut names : List String := []
      for _ in [0:70] do
        match cur.toNat? with
        | none => break
        | some i =>
          match (nodes[i]?).map (·.splitOn "|") with
          | some [nm, par, _] => names := names ++ [nm]; cur := par
          | _ => cur := "-"
      return String.intercalate "<" names
    if tok.startsWith "M" then
      match res.toNat? with
      | some r =>
        if r < prevSize then out := out ++ ["SPEC C03:result-aliases-the-tree", "SPEC C04:result-aliases-the-tree"]
        -- every ancestor is new as well
        let mut cur := res
        for _ in [0:70] do
          match cur.toNat? with
          | none => break
          | some i =>
            if i < prevSize then out := out ++ ["SPEC C03:result-ancestor-aliases-the-tree", "SPEC C14:result-ancestor-aliases-the-tree"]; break
            match (nodes[i]?).map (·.splitOn "|") with
            | some [_, par, _] => cur := par
            | _ => cur := "-"
        chains := chains ++ [chainFrom res]
      | none => out := out ++ ["SPEC C03:no-result(" ++ res ++ ")"]; chains := chains ++ ["?"]
    if tok.startsWith "P" then
      match (tok.drop 1).toString.toNat? with
      | some k => match chains[k]? with
        | some c => if c != "?" && res != c then out := out ++ ["SPEC C14:earlier-result-changed", "SPEC C03:parent-chain-changed-after-return"]
        | none => pure ()
      | none => pure ()
    prevSize := dumpSize d
  return out.eraseDups

def judge (script goRes : String) : String :=
  if (goRes.splitOn "%").contains "PANIC" then "SPEC C01:panic-in-tree-operations" else
  match run script with
  | none => if goRes == "BADSCRIPT" then "OK" else "BAD heap script"
  | some st =>
    let model := String.intercalate "%" st.obs.reverse
    let sp := specs script (goRes.splitOn "%") ++ invSpecs script (goRes.splitOn "%")
    let d := if model == goRes then [] else
      -- the first observation that differs
      let ms := st.obs.reverse
      let gs := goRes.splitOn "%"
      let i := ((ms.zip gs).takeWhile (fun p => p.1 == p.2)).length
      [s!"DIFF heap at-op={i} model={ms.getD i "-"}"]
    let all := d ++ sp
    if all.isEmpty then "OK" else String.intercalate " ; " all
end HeapOp

/-- `resext` / `resext1`: Extend on a detection result (and its ancestors / the result only) -/
def resextJudge (goRes : String) : String :=
  match goRes.splitOn " " with
  | [c1, c2, same] =>
    let a := if same != "T" then "SPEC C14:Extend-on-a-detection-result-changed-the-tree ; SPEC C04:result-aliases-the-tree ; SPEC C03:result-aliases-the-tree" else ""
    let b := if c1 != c2 then "SPEC C03:path-contains-a-node-outside-the-registered-tree ; SPEC C04:same-input-classified-differently ; SPEC C14:earlier-result-changed" else ""
    -- C02: no ancestor of a result carries parameters (before or after the Extend calls)
    let anc (c : String) : Bool := ((c.splitOn ",").drop 1).any fun e =>
      match unhex ((e.splitOn "|").headD "") with
      | some m => m.contains 0x3b
      | none => true
    let c := if anc c1 || anc c2 then "SPEC C02:ancestor-carries-parameters" else ""
    let all := [a, b, c].filter (· != "")
    if all.isEmpty then "OK" else String.intercalate " ; " all
  | _ => "SPEC C01:no-result(" ++ goRes ++ ")"

def handle (line : String) : String :=
  match line.splitOn " => " with
  | [lhs, goRes] =>
    let f := lhs.splitOn " "
    if goRes == "TIMEOUT" then "SPEC C01:operation-did-not-return" else
    if goRes == "PANIC" && f.head? != some "det" then "SPEC C01:operation-panicked" else
    match f with
    | ["det", name, hx, lim] =>
      -- a panic, a hang or a write into the input is a violation whether or not the check has a model
      if goRes == "PANIC" || goRes == "TIMEOUT" then s!"SPEC C01:detector-{goRes}({name})" else
      if goRes == "W" then "SPEC C17:detector-writes-into-its-input ; SPEC C04:input-buffer-modified ; SPEC C01:detector-writes-into-its-input" else
      match unhex hx, parseNat lim with
      | some raw, some l =>
        match Gen.dets.find? (fun p => p.1 == name) with
        | none => "SKIP no-such-detector"
        | some (_, d) =>
          let modelled := match d with
            | .custom c => (Cust.customModel c).isSome
            | _ => true
          if !modelled then "SKIP unmodelled" else
          let m := showOB (Cust.detEval (fun _ _ _ => false) d raw l)
          let sp := if goRes == "PANIC" || goRes == "TIMEOUT" then s!" ; SPEC C01:detector-{goRes}"
                    else if goRes == "W" then " ; SPEC C17:detector-writes-into-its-input ; SPEC C04:input-buffer-modified ; SPEC C01:detector-writes-into-its-input" else ""
          if m == goRes then "OK" else s!"DIFF det:{name} model={m}" ++ sp
      | _, _ => "BAD args"
    | ["walk", hx, lim, verd, toks, inst] =>
      match unhex hx, parseNat lim, parseTags toks, parseInst inst with
      | some raw, some l, some tg, some ins =>
        let T := Gen.builtin
        let flat := T.flatten
        let vs := verd.toList
        if vs.length != flat.length then s!"DIFF tree-size model={flat.length} go={vs.length}" else
        let h := header raw l
        -- 1. every modelled detector agrees with the real verdict on this header
        -- (the model's verdict of every node, computed once: also what the closed model's walk consults)
        let mvs : List (Option Bool) := flat.map fun i => Cust.detEval (fun _ _ _ => false) i.det h l
        let bad := ((flat.zip vs).zip mvs).filterMap fun ((i, v), mv) =>
          let modelled := match i.det with
            | .custom c => (Cust.customModel c).isSome
            | _ => true
          if !modelled then none else
          let m := showOB mv
          let g := if v == 'T' then "T" else if v == 'F' then "F" else "PANIC"
          if m == g then none else some s!"{i.detName}:model={m},go={g}"
        -- 2. the walk over the real verdicts reproduces the real result
        let idx := flat.zip vs
        let acc : Info → Bool := fun i =>
          match idx.find? (fun p => p.1.name == i.name) with
          | some (_, c) => c == 'T'
          | none => false
        let path := T.walk acc
        let chain := path.reverse
        let mi := XmlTok.firstProcInst (trimLWS h)
        let dxi := if mi == ins then "" else s!"DIFF xmlinst model={showInst mi}"
        let dht := tagsDiff h tg
        let ext : Ext := { cust := fun _ _ _ => false, htmlToks := fun x => HtmlTok.startTagsFull x, xmlInst := fun x => XmlTok.firstProcInst (trimLWS x) }
        let cs := match chain with
          | [] => []
          | leaf :: _ => if leaf.mime == mimeTextXml then XmlFull.fromXMLFull h (ext.xmlInst h) else charsetFor ext leaf.mime h
        let leafStr := match chain with
          | [] => []
          | leaf :: _ => MT.withCharset leaf.mime cs
        let m := chainStr chain ++ " " ++ bhex leafStr
        let d1 := if bad.isEmpty then "" else "DIFF verdicts " ++ String.intercalate ";" bad
        let goChain := (goRes.splitOn " ").headD ""
        -- XML labels go through the full model of Go's strings.ToLower (Unicode case mapping, U+FFFD for invalid
        -- bytes); HTML labels are lower-cased byte-wise, text/plain has none: every result string is compared
        let d2 := if chainStr chain == goChain then
                    (if m == goRes then "" else s!"DIFF leaf model={m}")
                  else s!"DIFF walk model={m} ; SPEC C03:chain-not-first-match-path"
        -- the specification oracle judges the implementation's own result
        let sp := match parseGoWalk goRes with
          | some (gchain, gleaf) => Spec.walkSpec raw l gchain gleaf
          | none => "SPEC C01:no-result(" ++ goRes ++ ")"
        -- C08 through Detect: an RFC 8259 object/array document (whole, or cut after the opening bracket) is
        -- reported in the JSON family unless a higher-priority signature accepted
        let sp8 :=
          let openIdx := raw.length - (Spec.J.skipWs raw).length
          match Spec.J.firstNonWs raw with
          | some c =>
            if (c == 0x7B || c == 0x5B) && (l == 0 || l > openIdx) then
              match Spec.J.doc true raw with
              | some v =>
                if Spec.J.depth v > 4096 then "" else
                (match T with
                 | .node _ cs =>
                   let pre1 := cs.takeWhile (fun c => c.info.name != "text")
                   match cs.dropWhile (fun c => c.info.name != "text") with
                   | [] => ""
                   | (.node _ tcs) :: _ =>
                     if pre1.any (fun c => acc c.info) then "" else
                     -- the sub-formats of text/plain that have priority over json (C08's anchor list, cf. C08.tree_facts)
                     let pre2 := tcs.filter (fun c => ["html", "svg", "xml", "php", "js", "lua", "perl", "python"].contains c.info.name)
                     match tcs.dropWhile (fun c => c.info.name != "json") with
                     | [] => ""
                     | jsonN :: _ =>
                       if pre2.any (fun c => acc c.info) then "" else
                       -- judged on the implementation's own result (not on the model's walk over the verdicts)
                       let goLeaf : Bytes := match parseGoWalk goRes with
                         | some (gc, _) => (gc.head?.map (·.1)).getD []
                         | none => []
                       if (jsonN.flatten.map (·.mime)).contains goLeaf then "" else "SPEC C08:well-formed-document-not-reported-as-json")
              | none => ""
            else ""
          | none => ""
        -- C09 through Detect: a result in the JSON family means the examined header is an accepted document when the
        -- whole input was examined (limit 0, or input shorter than the limit), a viable prefix of one otherwise
        let sp9 := match parseGoWalk goRes with
          | some (gc, _) =>
            let leaf : Bytes := (gc.head?.map (·.1)).getD []
            if [ofString "application/json", ofString "application/geo+json", ofString "model/gltf+json"].contains leaf then
              if l == 0 || raw.length < l then
                (if Spec.J.relaxedDoc h then "" else "SPEC C09:malformed-document-reported-as-json")
              else (if Spec.J.viable h then "" else "SPEC C09:truncated-input-not-a-prefix-of-a-document")
            else ""
          | none => ""
        -- C11 through Detect: the charset attached to a text/plain result, judged on the examined header
        let sp11 := match parseGoWalk goRes with
          | some (_, gleaf) =>
            let pre := ofString "text/plain; charset="
            if hasPrefix gleaf pre then Spec.charsetSpec h (bhex (gleaf.drop pre.length)) else ""
          | none => ""
        -- the CLOSED model: the whole of Detect computed from the bytes alone (no verdict, token or instruction
        -- taken from the implementation), against the implementation's chain and result string
        let dcl :=
          -- = Closed.detect raw l, unfolded so that the verdicts computed above are reused
          let midx := flat.zip mvs
          let macc : Info → Bool := fun i =>
            match midx.find? (fun p => p.1.name == i.name) with
            | some (_, v) => v == some true
            | none => false
          let cchain := (T.walk macc).reverse
          let ccs := match cchain with
            | [] => []
            | leaf :: _ => if leaf.mime == mimeTextXml then XmlFull.fromXMLBytesFull h else charsetFor Closed.ext leaf.mime h
          let mc := chainStr cchain
          let ms := match cchain with
            | [] => []
            | leaf :: _ => MT.withCharset leaf.mime ccs
          if mc != goChain then s!"DIFF closed-detect chain model={mc}"
          else if mc ++ " " ++ bhex ms == goRes then "" else s!"DIFF closed-detect string model={bhex ms}"
        -- a detector that wrote into its input (harness verdict `W`): what the following detectors see — and what
        -- the caller's buffer holds afterwards — then depends on how far the walk got
        let wr := if vs.contains 'W' then "SPEC C17:detector-writes-into-its-input ; SPEC C04:input-buffer-modified ; SPEC C03:detector-writes-into-its-input ; SPEC C01:detector-writes-into-its-input" else ""
        -- the caller's bytes (examined or beyond the limit) or the guard bytes around them changed during Detect
        let md := if (goRes.splitOn " ").contains "MODIFIED" then "SPEC C04:input-buffer-modified ; SPEC C01:input-buffer-modified ; SPEC C17:detector-writes-into-its-input" else ""
        let all := [d1, d2, dxi, dht, dcl, sp, sp8, sp9, sp11, wr, md].filter (· != "")
        if all.isEmpty then "OK" else String.intercalate " ; " all
      | _, _, _, _ => "BAD args"
    | ["jparse", q, hx] =>
      match unhex hx with
      | some raw =>
        let r := Json.parse (Json.queriesOf q) raw
        let m := s!"{r.parsed} {r.inspected} {r.firstToken} {r.querySatisfied}"
        if m == goRes then "OK" else s!"DIFF jparse model={m}"
      | none => "BAD args"
    | ["cs", "plain", hx] =>
      match unhex hx with
      | some raw =>
        let m := bhex (Charset.fromPlain raw)
        let d := if m == goRes then "" else s!"DIFF cs-plain model={m}"
        let sp := Spec.charsetSpec raw goRes
        let all := [d, sp].filter (· != "")
        if all.isEmpty then "OK" else String.intercalate " ; " all
      | none => "BAD args"
    | ["cs", "html", hx, toks] =>
      match unhex hx, parseTags toks with
      | some raw, some tg =>
        let dt := tagsDiff raw tg
        let mtg := HtmlTok.startTagsFull raw
        let m := bhex (Charset.fromHTML raw mtg)
        let d := if m == goRes then "" else s!"DIFF cs-html model={m}"
        let all := [dt, d].filter (· != "")
        if all.isEmpty then "OK" else String.intercalate " ; " all
      | _, _ => "BAD args"
    | ["cs", "xml", hx, inst] =>
      match unhex hx, parseInst inst with
      | some raw, some ins =>
        -- the decoder step is computed by the model of encoding/xml's first raw token and compared with the library's
        let mi := XmlTok.firstProcInst (trimLWS raw)
        let di := if mi == ins then "" else s!"DIFF xmlinst model={showInst mi}"
        -- the label goes through the full model of strings.ToLower (Model/ToLower.lean): every label is compared
        let m := bhex (XmlFull.fromXMLBytesFull raw)
        let d := if m == goRes then "" else s!"DIFF cs-xml model={m}"
        -- no encoding declared: the sniffing rules of C11 apply to the result
        let declared := match ins with
          | some i => Charset.xmlEncoding i != []
          | none => false
        let sp := if declared then "" else Spec.charsetSpec raw goRes
        let all := [di, d, sp].filter (· != "")
        if all.isEmpty then "OK" else String.intercalate " ; " all
      | _, _ => "BAD args"
    | ["meta", hx] =>
      match unhex hx with
      | some s =>
        let m := bhex (Charset.fromMetaElement s)
        if m == goRes then "OK" else s!"DIFF meta model={m}"
      | none => "BAD args"
    | ["xmlenc", hx] =>
      match unhex hx with
      | some s =>
        let m := bhex (Charset.xmlEncoding s)
        if m == goRes then "OK" else s!"DIFF xmlenc model={m}"
      | none => "BAD args"
    | ["xwalk", script, hx, lim, dump, verd] =>
      match unhex hx, parseNat lim, applyScript script Gen.builtin with
      | some _raw, some _l, some T =>
        let vs := verd.toList
        let goChain := (goRes.splitOn " ").headD ""
        -- (1) C03: the real result is the first-match path of the *runtime* tree under the real verdicts
        let toks : List (String × Nat) := (dump.splitOn "_").map fun t =>
          match t.splitOn "/" with
          | [l, n] => (l, n.toNat?.getD 0)
          | _ => (t, 0)
        let numbered : List (String × Nat) := toks
        let d1 := match buildTree numbered with
          | none => "DIFF bad-tree-dump"
          | some (gt, _) =>
            let gflat := numberTree gt
            let gacc : (String × Nat) → Bool := fun p => (vs.getD p.2 'F') == 'T'
            let gchain := (gflat.walk gacc).reverse.map (fun p => mimeExtOf p.1)
            if String.intercalate "," gchain == goChain then "" else
              s!"DIFF xwalk-runtime-tree model={String.intercalate "," gchain} ; SPEC C03:chain-not-first-match-path"
        -- (2) C14: the runtime tree is the model of the Extend calls
        let mdump := String.intercalate "_" (dumpTree T)
        let shapeOk := mdump == dump
        let d2 := if shapeOk then "" else "DIFF tree-after-extend ; SPEC C14:tree-shape-after-extend"
        let flat := T.flatten
        let idx := flat.zip vs
        let acc : Info → Bool := fun i =>
          match idx.find? (fun p => p.1.name == i.name) with
          | some (_, c) => c == 'T'
          | none => false
        -- non-interference: all extension detectors reject => same as the walk before the calls
        let extAccept := idx.any (fun p => p.1.name.startsWith "x#" && p.2 == 'T')
        let before := (Gen.builtin.walk acc).reverse
        let d3 := if shapeOk && !extAccept && chainStr before != goChain then "SPEC C14:rejected-extensions-changed-result" else ""
        let chain := (T.walk acc).reverse
        let d3b := if shapeOk && chainStr chain != goChain then "DIFF xwalk ; SPEC C14:walk-over-extended-tree" else ""
        let d4 := if (goRes.splitOn " ").contains "EARLIER-RESULT-CHANGED" then "SPEC C14:earlier-result-changed" else ""
        let d5 := if (goRes.splitOn " ").contains "MODIFIED" then "SPEC C04:input-buffer-modified" else ""
        let d6 := if ((goChain.splitOn ",").getLast?.map (fun e => (e.splitOn "|").headD "")) != some (bhex mimeOctet)
                  then "SPEC C02:chain-not-rooted-at-octet-stream" else ""
        -- C02: a parameter only on the three text types (the type of the reported leaf itself)
        let leafMime := ((goChain.splitOn ",").headD "").splitOn "|" |>.headD ""
        let goStr := ((goRes.splitOn " ").getD 1 "")
        let three := [bhex mimeTextPlain, bhex mimeTextHtml, bhex mimeTextXml]
        let d7 := if !three.contains leafMime && goStr != leafMime then "SPEC C02:parameter-on-a-type-other-than-the-three-text-types" else ""
        -- C11: a text/plain result (whichever node carries that type, built-in or registered through Extend)
        -- carries the charset the sniffing rules give for the examined header
        let d8 := if leafMime == bhex mimeTextPlain then
            (let h := header _raw _l
             let pre := bhex (ofString "text/plain; charset=")
             let want := Charset.fromPlain h
             if want.isEmpty then ""
             else if goStr.startsWith pre then Spec.charsetSpec h (String.ofList (goStr.toList.drop pre.length))
             else "SPEC C11:text-plain-result-without-charset")
          else ""
        let all := [d1, d2, d3, d3b, d4, d5, d6, d7, d8].filter (· != "")
        if all.isEmpty then "OK" else String.intercalate " ; " all
      | _, _, _ => "BAD args"
    | ["heap", script] => HeapOp.judge script goRes
    | ["realheap", script] =>
      match applyScript script Gen.builtin, HeapOp.parseHeap goRes with
      | some T, some gh =>
        match HeapAbs.absFp gh 0 with
        | none => "SPEC C14:tree-invariant-broken(parent-pointers-vs-children) ; SPEC C03:tree-invariant-broken(parent-pointers-vs-children)"
        | some (t, fp) =>
          let a := if fp.length != gh.length then "SPEC C14:tree-invariant-broken(node-not-reachable-from-root)" else ""
          let b := if t.flatten != T.flatten.map (fun i => bhex i.mime) then "DIFF tree-after-extend ; SPEC C14:tree-shape-after-extend" else ""
          let all := [a, b].filter (· != "")
          if all.isEmpty then "OK" else String.intercalate " ; " all
      | some _, none => "SPEC C14:tree-invariant-broken(pointer-to-unknown-node) ; SPEC C03:tree-invariant-broken(pointer-to-unknown-node)"
      | none, _ => if goRes == "BADSCRIPT" then "OK" else "BAD script"
    | ["isx", nh, _sh] =>
      -- any string; the normalised type comes from the real mime.ParseMediaType (oracle)
      match unhex nh with
      | some name =>
        if goRes == "NOLOOKUP" then "SPEC C15:registered-name-does-not-resolve" else
        match Gen.builtin.lookup (fun i => i.mime == name || i.aliases.contains name), goRes.splitOn " " with
        | some path, [bits, normh] =>
          match path.getLast?, (if normh == "-" then some [] else unhex normh) with
          | some node, some norm =>
            -- the model of ParseMediaType on arbitrary bytes against the real package's answer
            if (unhex _sh).map MTU.typeOfU != some norm then s!"DIFF parse-unicode model={bhex (((unhex _sh).map MTU.typeOfU).getD [])}" else
            let wantIs := norm == node.mime || node.aliases.contains norm
            let wantEq := norm == MT.typeOf name
            let want := (if wantIs then "T" else "F") ++ (if wantEq then "T" else "F")
            if bits == want then "OK"
            else if bits.toList.head? != want.toList.head? then
              (if wantIs then "SPEC C15:is-false-for-own-type-or-alias" else "SPEC C15:is-true-for-foreign-type")
            else "SPEC C15:equalsany-not-by-normalised-type"
          | _, _ => "BAD isx"
        | _, _ => "BAD isx"
      | none => "BAD args"
    | ["eqanyx", _sh, _th] =>
      match goRes.splitOn " " with
      | [bit, na, nb] =>
        let ma := ((unhex _sh).map MTU.typeOfU).getD []
        let mb := ((unhex _th).map MTU.typeOfU).getD []
        let h (b : Bytes) : String := if b.isEmpty then "-" else bhex b
        if h ma != na || h mb != nb then s!"DIFF parse-unicode model={h ma},{h mb}"
        else if (bit == "T") == (na == nb) then "OK" else "SPEC C15:equalsany-not-by-normalised-type"
      | _ => "BAD eqanyx"
    | ["hugelim", _lim, _hx] =>
      match goRes.splitOn " " with
      | [e, m, d] => if e == "nil" && m == d then "OK" else "SPEC C05:reader-disagrees-with-detect(limit-next-to-2^32) ; SPEC C04:same-bytes-different-answer-through-the-reader"
      | _ => if goRes == "NOMEM" || goRes == "NOCHILD" then "SKIP no memory for a buffer of that size" else "BAD hugelim"
    | ["bigslice", _lim, _extra, _hx] =>
      match goRes.splitOn " " with
      | [m, d] => if m == d then "OK" else "SPEC C07:only-the-first-limit-bytes-count(4GiB-slice) ; SPEC C05:large-input-header ; SPEC C01:large-input-header"
      | _ => if goRes == "NOMAP" then "SKIP no 4 GiB mapping" else "BAD bigslice"
    | ["bigfile", _lim, _extra, _hx] =>
      match goRes.splitOn " " with
      | [e, m, d] => if e == "nil" && m == d then "OK" else "SPEC C05:file-differs-from-bytes(4GiB-file) ; SPEC C07:only-the-first-limit-bytes-count(4GiB-file)"
      | _ => if goRes == "NOTEMP" then "SKIP no sparse file" else "BAD bigfile"
    | ["resext", _hx, _lim] => resextJudge goRes
    | ["resext1", _hx, _lim] => resextJudge goRes
    | ["xlookup", script, nm] =>
      match unhex nm, applyScript script Gen.builtin with
      | some name, some T =>
        let r := T.lookup (fun i => i.mime == name || i.aliases.contains name)
        let lbl := fun (i : Info) => bhex i.mime ++ "|" ++ bhex i.ext
        let m := match r with
          | none => "NIL NIL"
          | some p => match p.reverse with
            | [] => "NIL NIL"
            | [n] => lbl n ++ " NIL"
            | n :: par :: _ => lbl n ++ " " ++ lbl par
        -- C14 lookup clause: a fresh extension name resolves to the extension, under the parent it was registered on
        let fresh := !(Gen.builtin.flatten.any (fun i => i.mime == name || i.aliases.contains name))
        let exts := T.flatten.filter (fun i => i.name.startsWith "x#" && (i.mime == name || i.aliases.contains name))
        let sp := if fresh && exts.length == 1 then
            (match r with
             | some p => if (p.getLast?.map (·.name)) == exts.head?.map (·.name) then "" else "SPEC C14:lookup-finds-wrong-node"
             | none => "SPEC C14:lookup-misses-extension")
          else ""
        let d := if m == goRes then "" else s!"DIFF xlookup model={m}" ++ (if fresh && exts.length == 1 then " ; SPEC C14:lookup-of-extension" else "")
        -- C15: every registered type and alias resolves through Lookup
        let registered := T.flatten.any (fun i => i.mime == name || i.aliases.contains name)
        let s15 := if registered && goRes.startsWith "NIL" then "SPEC C15:registered-name-does-not-resolve" else ""
        let all := [d, sp, s15].filter (· != "")
        if all.isEmpty then "OK" else String.intercalate " ; " all
      | _, _ => "BAD args"
    | "reader" :: lim :: hx :: chunks :: ewd :: errAt :: wrap =>
      match parseNat lim, unhex hx with
      | some l, some data =>
        let cs : List Nat := if chunks == "~" then [] else (chunks.splitOn ",").filterMap String.toNat?
        let ea : Option Nat := if errAt.startsWith "-" then none else errAt.toNat?
        let sc : Reader.Script := { content := data, chunks := cs, eofWithData := ewd == "1", errAt := ea }
        let (inp, n) := Reader.detectReaderInput sc l
        match goRes.splitOn " " with
        | [ecls, deliv, rres, dres] =>
          let mErr := if inp.isNone then "sentinel" else "nil"
          let wrapped := !wrap.isEmpty
          let d1 := if mErr == ecls && (wrapped || toString n == deliv) then "" else s!"DIFF reader model={mErr} {n}"
          let octet := bhex mimeOctet ++ "|-/" ++ bhex mimeOctet
          -- specification clauses on the implementation's own result
          let s1 := if l != 0 && deliv.toNat?.getD 0 > l then "SPEC C05:consumed-more-than-limit ; SPEC C04:bytes-beyond-the-limit-were-examined" else ""
          let hdrLen := if l == 0 then data.length else min l data.length
          let mustFail := match ea with | some e => e < hdrLen | none => false
          let s2 := if mustFail && (ecls != "sentinel" || rres != octet) then "SPEC C05:read-error-not-surfaced" else ""
          let s3 := if ecls == "nil" && !mustFail then
              (let expect := if ea.isSome && l != 0 then none else some dres
               match expect with
               | some d => if rres == d then "" else "SPEC C05:reader-disagrees-with-detect ; SPEC C04:same-bytes-different-answer-through-the-reader"
               | none =>
                 -- error offset at or beyond the header: the header is complete, same answer
                 if rres == dres then "" else "SPEC C05:reader-disagrees-with-detect ; SPEC C04:same-bytes-different-answer-through-the-reader")
            else ""
          let s4 := if ecls != "nil" && rres != octet then "SPEC C02:error-result-not-octet-stream" else ""
          let s5 := if ecls != "nil" && ecls != "sentinel" then "SPEC C05:unexpected-error-class" else ""
          let s6 := if ecls == "sentinel" && !mustFail && ea.isNone then "SPEC C05:spurious-error" else ""
          let s7 := if rres == "NILMIME" then "SPEC C01:nil-MIME-returned" else ""
          -- the result of a successful DetectReader, judged against the header the limit defines (C07, C02)
          let s8 := if ecls == "nil" && !mustFail && !(ea.isSome && l != 0) then
              (let chainStr := (rres.splitOn "/").headD ""
               let ch : List (Bytes × Bytes) := (chainStr.splitOn ",").filterMap fun e =>
                 match e.splitOn "|" with
                 | [m, x] => (unhex m).map fun mb => (mb, if x == "-" then [] else (unhex x).getD [])
                 | _ => none
               Spec.walkSpec data l ch [])
            else ""
          let all := [d1, s1, s2, s3, s4, s5, s6, s7, s8].filter (· != "")
          if all.isEmpty then "OK" else String.intercalate " ; " all
        | _ => "SPEC C01:no-result(" ++ goRes ++ ")"
      | _, _ => "BAD args"
    | ["procfile", _lim, _ph] =>
      match goRes.splitOn " " with
      | [ecls, _, rres, dres] =>
        if ecls != "nil" then "SPEC C05:file-error-on-regular-file"
        else if rres != dres then "SPEC C05:file-disagrees-with-detect" else "OK"
      | _ => if goRes == "UNREADABLE" || goRes == "UNSTABLE" then "SKIP " ++ goRes else "SPEC C01:no-result(" ++ goRes ++ ")"
    | ["file", _lim, _hx] =>
      match goRes.splitOn " " with
      | [ecls, _, rres, dres] =>
        if ecls != "nil" then "SPEC C05:file-error-on-regular-file"
        else if rres != dres then "SPEC C05:file-disagrees-with-detect" else "OK"
      | _ => "SPEC C01:no-result(" ++ goRes ++ ")"
    | ["filebad", _] =>
      let octet := bhex mimeOctet ++ "|-/" ++ bhex mimeOctet
      match goRes.splitOn " " with
      | [ecls, rres] =>
        if rres == "NILMIME" then "SPEC C01:nil-MIME-returned ; SPEC C02:error-result-not-octet-stream"
        else if ecls != "error" then "SPEC C05:open-error-not-surfaced"
        else if rres != octet then "SPEC C02:error-result-not-octet-stream" else "OK"
      | _ => "SPEC C01:no-result(" ++ goRes ++ ")"
    | ["mono", _hx, _l1, _l2] =>
      match goRes.splitOn " " with
      | [c1, c2] =>
        let isBin := fun (c : String) =>
          let items := c.splitOn ","
          items.length ≥ 2 && !(items.any (fun e => (e.splitOn "|").head? == some (bhex mimeTextPlain)))
        if isBin c1 && !isBin c2 then "SPEC C17:binary-identification-lost-at-larger-limit" else "OK"
      | _ => "SPEC C01:no-result(" ++ goRes ++ ")"
    | ["tar", kind, lim, hx] =>
      match unhex hx, parseNat lim with
      | some raw, some l =>
        match goRes.splitOn " " with
        | chain :: tv :: earlier :: flags =>
          let h := header raw l
          let m := if Cust.tar h then "T" else "F"
          let d := if m == tv then "" else s!"DIFF det:Tar model={m}"
          let isTar := (chain.splitOn ",").any (fun e => (e.splitOn "|").head? == some "6170706c69636174696f6e2f782d746172")
          -- a higher-priority root format excuses the archive only if it is one of those the property
          -- lists in front of tar (`Spec.tarOutrankers`, proved equal to the regenerated order in Props/C18)
          let excused := match earlier.splitOn ":" with
            | ["y", mh] =>
              (match Gen.builtin.children.find? (fun c => bhex c.info.mime == mh) with
               | some c => Spec.tarOutrankers.contains c.info.name
               | none => false)
            | _ => false
          let s1 := if kind == "ok" && !excused && h.length ≥ 512 && !isTar &&
                      !containsSub (h.take 100) Cust.gpkgMarker then "SPEC C18:conforming-archive-not-tar" else ""
          let s2 := if kind == "bad" && isTar then "SPEC C18:corrupted-header-still-tar" else ""
          let s3 := if isTar && tv != "T" then "SPEC C18:tar-reported-without-tar-verdict" else ""
          let s4 := if flags.contains "REPEAT-DIFFERS" then "SPEC C18:repeated-detection-differs ; SPEC C04:repeated-detection-differs" else ""
          let s5 := if flags.contains "MODIFIED" then "SPEC C04:input-buffer-modified" else ""
          let all := [d, s1, s2, s3, s4, s5].filter (· != "")
          if all.isEmpty then "OK" else String.intercalate " ; " all
        | _ => "SPEC C01:no-result(" ++ goRes ++ ")"
      | _, _ => "BAD args"
    | ["trace", _hx, _lim] =>
      match goRes.splitOn " " with
      | [verd, lg, _chain] =>
        let T := Gen.builtin
        let flat := T.flatten
        let vs := verd.toList
        if vs.length != flat.length then s!"DIFF tree-size model={flat.length} go={vs.length}" else
        let idx := flat.zip vs
        let acc : Info → Bool := fun i =>
          match idx.find? (fun p => p.1.name == i.name) with
          | some (_, c) => c == 'T'
          | none => false
        let names := flat.map (·.name)
        -- the model's instrumented walk over the real verdicts
        let mt := (T.walkTrace acc).map fun (i, v) => s!"{names.idxOf i.name}:{if v then "T" else "F"}"
        let m := if mt.isEmpty then "~" else String.intercalate "," mt
        if m == lg then "OK" else s!"DIFF trace model={m} ; SPEC C03:detectors-not-consulted-in-first-match-order"
      | _ => "SPEC C01:no-result(" ++ goRes ++ ")"
    | ["ziplayout", hx] =>
      match unhex hx with
      | some raw => zipLayoutJudge raw goRes
      | none => "BAD args"
    | ["zip", _hx] =>
      match goRes.splitOn " " with
      | [chain, names, first] =>
        if names == "!" then "SKIP not-a-readable-zip" else
        let ns : List Bytes := if names == "~" then [] else (names.splitOn ",").filterMap unhex
        let ch : List (Bytes × Bytes) := (chain.splitOn ",").filterMap fun e =>
          match e.splitOn "|" with
          | [m, x] => (unhex m).bind fun mb => (unhex x).map fun xb => (mb, xb)
          | _ => none
        let sp := Spec.zipSpec ch ns
        -- the OpenDocument / EPUB clause: first entry = the stored `mimetype` file naming such a type
        let sp2 := match (if first == "-" then none else unhex first) with
          | some c => Spec.odfSpec ch ns c
          | none => ""
        let all := [sp, sp2].filter (· != "")
        if all.isEmpty then "OK" else String.intercalate " ; " all
      | _ => "SPEC C01:no-result(" ++ goRes ++ ")"
    | ["jdoc", hx] =>
      match unhex hx, goRes.splitOn " " with
      | some doc, [ww, bits] =>
        let wantTok := Json.tokObject ||| Json.tokArray
        let q := Gen.Json.q_json
        let n := doc.length
        let mw := (if Json.jsonHelper doc 0 q wantTok then "T" else "F") ++ (if Json.jsonHelper doc (n + 1) q wantTok then "T" else "F")
        let mbits := String.ofList ((List.range n).map fun i => if Json.jsonHelper (doc.take (i + 1)) (i + 1) q wantTok then 'T' else 'F')
        let d := if mw == ww && mbits == bits then "" else s!"DIFF jdoc model={mw} {mbits}"
        let sp := match Spec.J.doc true doc with
          | none => ""
          | some v =>
            if Spec.J.depth v > 4096 then "" else
            if ww != "TT" then "SPEC C08:well-formed-document-rejected" else
            let openIdx := n - (Spec.J.skipWs doc).length
            let bl := bits.toList
            match (List.range n).find? (fun i => i + 1 > openIdx && bl.getD i 'F' != 'T') with
            | some i => s!"SPEC C08:truncated-document-rejected-at-cut-{i + 1}"
            | none => ""
        let all := [d, sp].filter (· != "")
        if all.isEmpty then "OK" else String.intercalate " ; " all
      | _, _ => "BAD args"
    | ["jany", hx] =>
      match unhex hx with
      | some raw =>
        let wantTok := Json.tokObject ||| Json.tokArray
        let q := Gen.Json.q_json
        let m := (if Json.jsonHelper raw 0 q wantTok then "T" else "F") ++ (if Json.jsonHelper raw raw.length q wantTok then "T" else "F")
        let d := if m == goRes then "" else s!"DIFF jany model={m}"
        let g := goRes.toList
        let s1 := if g.getD 0 'F' == 'T' && !Spec.J.relaxedDoc raw then "SPEC C09:malformed-document-reported-as-json" else ""
        let s2 := if g.getD 1 'F' == 'T' && !Spec.J.viable raw then "SPEC C09:truncated-input-not-a-prefix-of-a-document" else ""
        let s3 := match Spec.J.doc true raw with
          | some v => if Spec.J.depth v ≤ 4096 && g.getD 0 'F' != 'T' then "SPEC C08:well-formed-document-rejected" else ""
          | none => ""
        let all := [d, s1, s2, s3].filter (· != "")
        if all.isEmpty then "OK" else String.intercalate " ; " all
      | none => "BAD args"
    | ["jsubcut", hx, lim, decEnd] =>
      match unhex hx, parseNat lim, parseNat decEnd with
      | some doc, some l, some de =>
        if l < de then "SKIP deciding-member-cut" else
        match Spec.J.doc true doc with
        | none => "SKIP not-strict"
        | some v =>
          let expect : String :=
            if Spec.J.isGeo v then bhex (ofString "application/geo+json") ++ "|" ++ bhex (ofString ".geojson")
            else if Spec.J.isHar v then bhex (ofString "application/json") ++ "|" ++ bhex (ofString ".har")
            else if Spec.J.isGltf v then bhex (ofString "model/gltf+json") ++ "|" ++ bhex (ofString ".gltf")
            else bhex (ofString "application/json") ++ "|" ++ bhex (ofString ".json")
          let leaf := (goRes.splitOn ",").headD ""
          if leaf == expect then "OK" else s!"SPEC C10:wrong-json-subtype-with-deciding-member-inside-header expected={expect}"
      | _, _, _ => "BAD args"
    | ["jsub", hx, lim] =>
      match unhex hx, parseNat lim with
      | some doc, some l =>
        if l != 0 && l ≤ doc.length then "SKIP truncated" else
        match Spec.J.doc true doc with
        | none => "SKIP not-strict"
        | some v =>
          let expect : String :=
            if Spec.J.isGeo v then bhex (ofString "application/geo+json") ++ "|" ++ bhex (ofString ".geojson")
            else if Spec.J.isHar v then bhex (ofString "application/json") ++ "|" ++ bhex (ofString ".har")
            else if Spec.J.isGltf v then bhex (ofString "model/gltf+json") ++ "|" ++ bhex (ofString ".gltf")
            else bhex (ofString "application/json") ++ "|" ++ bhex (ofString ".json")
          let leaf := (goRes.splitOn ",").headD ""
          if leaf == expect then "OK" else s!"SPEC C10:wrong-json-subtype expected={expect}"
      | _, _ => "BAD args"
    | ["lines", kind, hx, lim] =>
      match unhex hx, parseNat lim, goRes.splitOn " " with
      | some raw, some l, [bits, chain, earlier] =>
        let b := bits.toList
        let e := earlier.toList
        let h := header raw l
        let m := if Cust.ndjson h l then 'T' else 'F'
        let d := if m == b.getD 0 '?' then "" else s!"DIFF det:NdJSON model={m}"
        let mc := if Csv.sv h l 0x2C then 'T' else 'F'
        let dc := if mc == b.getD 1 '?' then "" else s!"DIFF det:Csv model={mc}"
        let mt := if Csv.sv h l 0x09 then 'T' else 'F'
        let dt := if mt == b.getD 2 '?' then "" else s!"DIFF det:Tsv model={mt}"
        let leaf := ((chain.splitOn ",").headD "").splitOn "|" |>.headD ""
        let s1 := Spec.ndjsonSpec kind raw l (b.getD 0 'F' == 'T') (leaf == bhex (ofString "application/x-ndjson")) (e.getD 0 'n' == 'y')
        let s2 := Spec.svSpec kind "csv" raw l (b.getD 1 'F' == 'T') (leaf == bhex (ofString "text/csv")) (e.getD 1 'n' == 'y') 0x2C
        let s3 := Spec.svSpec kind "tsv" raw l (b.getD 2 'F' == 'T') (leaf == bhex (ofString "text/tab-separated-values")) (e.getD 2 'n' == 'y') 0x09
        let all := [d, dc, dt, s1, s2, s3].filter (· != "")
        if all.isEmpty then "OK" else String.intercalate " ; " all
      | _, _, _ => "BAD args"
    | ["dll", hx, lim] =>
      match unhex hx, parseNat lim with
      | some raw, some l =>
        let m := bhex (Cust.dropLastLine raw l)
        if m == goRes then "OK" else s!"DIFF dropLastLine model={m}"
      | _, _ => "BAD args"
    | ["decl", kind, lh, hx, _lim] =>
      match unhex lh, unhex hx with
      | some label, some doc =>
        -- expected: the declared label in lower case (utf-16* in an HTML meta => utf-8);
        -- a byte-order mark wins over an HTML meta declaration
        let low := Charset.lowerASCII label
        let isHtml := kind != "xml"
        let bom := Charset.fromBOM doc
        let want : Bytes :=
          if isHtml && bom != [] then bom
          else if isHtml && hasPrefix low Charset.kUtf16 then Charset.csUtf8 else low
        let mime := if isHtml then mimeTextHtml else mimeTextXml
        let expectStr := bhex (MT.withCharset mime want)
        let got := ((goRes.splitOn "/").getLast?).getD ""
        -- the clause is about results of type text/html (text/xml): a document the library
        -- does not recognise as HTML at all is outside it
        let gotB := (unhex got).getD []
        if !(hasPrefix gotB mime) then "SKIP not-reported-as-html-or-xml" else
        if got == expectStr then "OK" else s!"SPEC C12:declared-charset-not-reported expected={expectStr}"
      | _, _ => "BAD args"
    | ["hist", items] =>
      match goRes.splitOn " " with
      | [pooled, isolated] =>
        let its := items.splitOn ","
        let model := its.map fun it =>
          match it.splitOn ":" with
          | [q, hx] => match unhex hx with
            | some raw =>
              let r := Json.parse (Json.queriesOf q) raw
              s!"{r.parsed}/{r.inspected}/{r.firstToken}/{r.querySatisfied}"
            | none => "?"
          | _ => "?"
        let d := if String.intercalate "," model == pooled then "" else s!"DIFF jparse-history model={String.intercalate "," model}"
        let sp := if pooled == isolated then "" else "SPEC C04:parse-result-depends-on-earlier-parses"
        let all := [d, sp].filter (· != "")
        if all.isEmpty then "OK" else String.intercalate " ; " all
      | _ => "SPEC C01:no-result(" ++ goRes ++ ")"
    | ["dhist", lim, items] =>
      let ins := items.splitOn ","
      let outs := goRes.splitOn ";"
      if ins.length != outs.length then "SPEC C01:no-result(" ++ goRes ++ ")" else
      let pairs := ins.zip outs
      let bad := pairs.any fun p => pairs.any fun q => p.1 == q.1 && p.2 != q.2
      -- inputs that agree on the examined header (the first `lim` bytes) must get the same answer
      let l := lim.toNat?.getD 0
      let hdr : String → String := fun h => if l == 0 then h else String.ofList (h.toList.take (2 * l))
      let beyond := pairs.any fun p => pairs.any fun q => p.1 != q.1 && hdr p.1 == hdr q.1 && p.2 != q.2
      let modi := outs.any (fun o => o.endsWith "!MODIFIED")
      if bad then "SPEC C04:same-input-different-result-within-a-sequence"
      else if beyond then "SPEC C04:result-depends-on-bytes-beyond-the-limit"
      else if modi then "SPEC C04:input-buffer-modified" else "OK"
    | ["jcap", cap, q, hx] =>
      match parseNat cap, unhex hx with
      | some c, some raw =>
        let r := Json.parseWith Json.PState.fresh c (Json.queriesOf q) raw
        let m := s!"{r.parsed} {r.inspected} {r.firstToken} {r.querySatisfied}"
        if m == goRes then "OK" else s!"DIFF jcap model={m}"
      | _, _ => "BAD args"
    | ["bomb", _shape, depth, _lim] =>
      match goRes.splitOn " " with
      | ["survived", res] =>
        let d := depth.toNat?.getD 0
        let mime := (unhex res).getD []
        let jsonFamily := hasPrefix mime (ofString "application/json") || hasPrefix mime (ofString "application/geo+json") ||
          hasPrefix mime (ofString "model/gltf+json") || hasPrefix mime (ofString "application/x-ndjson")
        if _shape.startsWith "flat" then
          -- a flat document is valid JSON of depth 1: it is reported as JSON (C08), and the detection survived
          (if mime == ofString "application/json" then "OK" else "SPEC C08:well-formed-document-not-reported-as-json ; SPEC C16:flat-document-misjudged")
        else
        if d > Gen.Json.maxRecursion + 1 && jsonFamily then "SPEC C16:nesting-beyond-the-cap-reported-as-json" else "OK"
      | _ => "SPEC C16:detection-did-not-survive-the-bomb(" ++ goRes ++ ") ; SPEC C01:detection-crashed-on-deep-nesting"
    | ["extflip", _hx] =>
      match goRes.splitOn " " with
      | [got, r0, rfinal] =>
        if got == r0 || got == rfinal then "OK"
        else "SPEC C06:result-is-not-a-sequential-result-for-any-set-of-extensions-in-force-during-the-call ; SPEC C14:result-mixes-two-states-of-the-tree"
      | _ => "SPEC C01:no-result(" ++ goRes ++ ")"
    | ["limflip", _l1, _l2, _hx] => flipJudge goRes
    | ["matchflip", _l1, _l2, _hx] => flipJudge goRes
    | ["fmt", th, vh] =>
      match unhex th, unhex vh with
      | some t, some v =>
        let m := bhex (MT.format1 t MT.kCharset v)
        if m == goRes then "OK" else s!"DIFF fmt model={m}"
      | _, _ => "BAD args"
    | ["parse", hx] =>
      match unhex hx with
      | some v =>
        if !isAsciiBytes v then
          -- outside ASCII: the type and the error class from the model for arbitrary bytes (the parameters' values
          -- are not compared there)
          let r := MTU.parseU v
          let cls := match r.2 with
            | .none => "none" | .invalidParam => "invalidParam" | .noType => "noType" | .duplicate => "duplicate"
          match goRes.splitOn "|" with
          | [t, _, c] => if t == bhex r.1 && c == cls then "OK" else s!"DIFF parse-unicode model={bhex r.1}|{cls}"
          | _ => "BAD parse result"
        else
        let m := showParse (MT.parse v)
        if m == goRes then "OK" else s!"DIFF parse model={m}"
      | none => "BAD args"
    | ["is", nh, sh] =>
      match unhex nh, unhex sh with
      | some name, some sv =>
        if goRes == "NOLOOKUP" then "SPEC C15:registered-name-does-not-resolve" else
        match Gen.builtin.lookup (fun i => i.mime == name || i.aliases.contains name) with
        | none => "DIFF is model=NOLOOKUP"
        | some path =>
          match path.getLast? with
          | none => "BAD path"
          | some node =>
            -- `MTU.typeOfU`: mime.ParseMediaType on arbitrary bytes (Unicode white space and case, invalid UTF-8)
            let ts := MTU.typeOfU sv
            let isM := ts == MTU.typeOfU node.mime || node.aliases.contains ts
            let eqM := ts == MTU.typeOfU name
            let m := (if isM then "T" else "F") ++ (if eqM then "T" else "F")
            let g := (goRes.splitOn " ").headD ""
            let d := if m == g then "" else s!"DIFF is model={m}"
            -- C15: the answer depends only on the normalised type of `s`
            let sp := if (ts == node.mime || node.aliases.contains ts) && g.toList.head? != some 'T' then "SPEC C15:is-false-for-own-type-or-alias"
                      else if !(ts == node.mime || node.aliases.contains ts) && g.toList.head? == some 'T' then "SPEC C15:is-true-for-foreign-type" else ""
            let all := [d, sp].filter (· != "")
            if all.isEmpty then "OK" else String.intercalate " ; " all
      | _, _ => "BAD args"
    | ["eqany", sh, th] =>
      match unhex sh, unhex th with
      | some a, some b =>
        let m := if MTU.typeOfU a == MTU.typeOfU b then "T" else "F"
        let d := if m == goRes then "" else s!"DIFF eqany model={m}"
        let sp := if m != goRes then "SPEC C15:equalsany-not-by-normalised-type" else ""
        let all := [d, sp].filter (· != "")
        if all.isEmpty then "OK" else String.intercalate " ; " all
      | _, _ => "BAD args"
    | ["res", _hx, _lim] =>
      match goRes.splitOn " " with
      | [sh, pr, parents, bits] =>
        match pr.splitOn "|" with
        | [th, kv, cls] =>
          let t := (unhex th).getD []
          let registered := Gen.builtin.flatten.any (fun i => i.mime == t)
          let three := [mimeTextPlain, mimeTextHtml, mimeTextXml]
          let keys := if kv == "~" then [] else (kv.splitOn "&").map (fun e => (e.splitOn "=").headD "")
          let ps := if parents == "~" then [] else parents.splitOn ","
          let parentsClean := ps.all (fun p => match unhex p with
            | some b => !(b.contains 0x3B) && Gen.builtin.flatten.any (fun i => i.mime == b)
            | none => false)
          let rooted := match ps.getLast? with
            | some p => p == bhex mimeOctet
            | none => sh == bhex mimeOctet
          let c2 :=
            if cls != "none" then "SPEC C02:result-string-does-not-parse"
            else if !registered then "SPEC C02:result-type-not-registered"
            else if !(keys.all (· == bhex MT.kCharset)) || keys.length > 1 then "SPEC C02:unexpected-parameter"
            else if !keys.isEmpty && !three.contains t then "SPEC C02:charset-on-other-type"
            else if !parentsClean then "SPEC C02:parent-chain-carries-parameters-or-unregistered-type"
            else if !rooted then "SPEC C02:chain-not-rooted-at-octet-stream"
            else ""
          let b := bits.toList
          let c15 :=
            if b.getD 0 'F' != 'T' then "SPEC C15:result-is-not-itself"
            else if b.getD 1 'F' != 'T' then "SPEC C15:equalsany-not-reflexive-on-result"
            else if b.getD 2 'F' != 'T' then "SPEC C15:lookup-of-result-type-is-not-the-result"
            else if b.getD 3 'T' != 'T' then "SPEC C15:result-does-not-know-its-aliases"
            else ""
          let all := [c2, c15].filter (· != "")
          if all.isEmpty then "OK" else String.intercalate " ; " all
        | _ => "SPEC C02:result-string-does-not-parse"
      | _ => "SPEC C01:no-result(" ++ goRes ++ ")"
    | ["xres", _sc, _hx, _lim] =>
      -- a result on an enlarged tree: the registered-type clauses of C02 need the enlarged tree and are left to
      -- the xwalk ops; here: the string parses, the chain is rooted, and the reflexivity clauses of C15
      match goRes.splitOn " " with
      | [sh, pr, parents, bits] =>
        let cls := ((pr.splitOn "|").getLast?).getD ""
        let ps := if parents == "~" then [] else parents.splitOn ","
        let rooted := match ps.getLast? with
          | some p => p == bhex mimeOctet
          | none => sh == bhex mimeOctet
        let c2 := if cls != "none" then "" else if !rooted then "SPEC C02:chain-not-rooted-at-octet-stream" else ""
        let b := bits.toList
        let c15 :=
          if cls != "none" then ""   -- a name that does not parse as a media type is outside the clause
          else if b.getD 0 'F' != 'T' then "SPEC C15:result-is-not-itself"
          else if b.getD 1 'F' != 'T' then "SPEC C15:equalsany-not-reflexive-on-result"
          -- Lookup compares names verbatim ("exact match", anchor of the property) and the property's Lookup
          -- clauses are about names registered in normal form, as tree.go does: not judged for these extensions
          else ""
        let all := [c2, c15].filter (· != "")
        if all.isEmpty then "OK" else String.intercalate " ; " all
      | _ => if goRes == "BADSCRIPT" then "SKIP bad-script" else "SPEC C01:no-result(" ++ goRes ++ ")"
    | ["xresn", _sc, _hx, _lim] =>
      -- the same on a tree enlarged by extensions whose name and aliases are all in normal form: every clause is judged
      match goRes.splitOn " " with
      | [_sh, _pr, _parents, bits] =>
        let b := bits.toList
        if b.getD 0 'F' != 'T' then "SPEC C15:result-is-not-itself"
        else if b.getD 1 'F' != 'T' then "SPEC C15:equalsany-not-reflexive-on-result"
        else if b.getD 2 'F' != 'T' then "SPEC C15:lookup-of-result-type-is-not-the-result"
        else if b.getD 3 'T' != 'T' then "SPEC C15:result-does-not-know-its-aliases"
        else "OK"
      | _ => if goRes == "BADSCRIPT" then "SKIP bad-script" else "SPEC C01:no-result(" ++ goRes ++ ")"
    | ["treeeq"] =>
      let m := String.intercalate " " (dumpTree Gen.builtin)
      if m == goRes then "OK" else s!"DIFF tree model={m}"
    | _ => "BAD op"
  | _ => "BAD line"

partial def loop (hin hout : IO.FS.Stream) : IO Unit := do
  let line ← hin.getLine
  if line.isEmpty then return ()
  let l := (line.dropRightWhile (fun c => c == '\n' || c == '\r'))
  hout.putStrLn (handle l)
  loop hin hout

def main : IO Unit := do
  let hin ← IO.getStdin
  let hout ← IO.getStdout
  loop hin hout
  hout.flush
