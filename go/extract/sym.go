package main

// Symbolic translation of the bodies of internal/magic signature checks into the
// BExp language of lean/MimeModel/Model/Sig.lean.  Anything outside the supported
// fragment returns an error and the function is classified `custom`.

import (
	"fmt"
	"go/ast"
	"go/token"
	"strconv"
	"strings"
)

// ---------- target language ----------

type I struct { // IExp
	op   string // lit byte u16be u16le u32be u32le band
	n    int64  // lit value / byte index / offset / mask
	need int64
	a    *I
}

func (i *I) lean() string {
	switch i.op {
	case "lit":
		return fmt.Sprintf("(.lit %d)", i.n)
	case "byte":
		return fmt.Sprintf("(.byte %d)", i.n)
	case "u16be", "u16le", "u32be", "u32le":
		return fmt.Sprintf("(.%s %d %d)", i.op, i.n, i.need)
	case "band":
		return fmt.Sprintf("(.band %s %d)", i.a.lean(), i.n)
	}
	panic("bad I")
}
func (i *I) touchesRaw() bool {
	switch i.op {
	case "lit":
		return false
	case "band":
		return i.a.touchesRaw()
	}
	return true
}

type B struct {
	op      string // const lenGe cmp prefixAt equalAt containsUpTo containsAll equalAll oleClsid zipContains and or not ite
	bval    bool
	k, k2   int64
	cmp     string
	ia, ib  *I
	sig     []byte
	a, b, c *B
}

func leanBytes(b []byte) string {
	var sb strings.Builder
	sb.WriteString("[")
	for i, x := range b {
		if i > 0 {
			sb.WriteString(", ")
		}
		sb.WriteString(strconv.Itoa(int(x)))
	}
	sb.WriteString("]")
	return sb.String()
}

func (b *B) lean() string {
	switch b.op {
	case "const":
		return fmt.Sprintf("(.const %v)", b.bval)
	case "lenGe":
		return fmt.Sprintf("(.lenGe %d)", b.k)
	case "cmp":
		return fmt.Sprintf("(.cmp .%s %s %s)", b.cmp, b.ia.lean(), b.ib.lean())
	case "prefixAt":
		return fmt.Sprintf("(.prefixAt %d %s)", b.k, leanBytes(b.sig))
	case "equalAt":
		return fmt.Sprintf("(.equalAt %d %d %s)", b.k, b.k2, leanBytes(b.sig))
	case "containsUpTo":
		return fmt.Sprintf("(.containsUpTo %d %d %s)", b.k, b.k2, leanBytes(b.sig))
	case "containsAll":
		return fmt.Sprintf("(.containsAll %s)", leanBytes(b.sig))
	case "equalAll":
		return fmt.Sprintf("(.equalAll %s)", leanBytes(b.sig))
	case "oleClsid":
		return fmt.Sprintf("(.prim (.oleClsid %s))", leanBytes(b.sig))
	case "zipContains":
		return fmt.Sprintf("(.prim (.zipContains %s %v))", leanBytes(b.sig), b.bval)
	case "and":
		return fmt.Sprintf("(.and %s %s)", b.a.lean(), b.b.lean())
	case "or":
		return fmt.Sprintf("(.or %s %s)", b.a.lean(), b.b.lean())
	case "not":
		return fmt.Sprintf("(.not %s)", b.a.lean())
	case "ite":
		return fmt.Sprintf("(.ite %s %s %s)", b.c.lean(), b.a.lean(), b.b.lean())
	}
	panic("bad B " + b.op)
}

func bConst(v bool) *B { return &B{op: "const", bval: v} }
func isConst(b *B, v bool) bool {
	return b.op == "const" && b.bval == v
}
func bNot(a *B) *B {
	if a.op == "not" {
		return a.a
	}
	if a.op == "const" {
		return bConst(!a.bval)
	}
	return &B{op: "not", a: a}
}
func bAnd(a, b *B) *B {
	if isConst(a, true) {
		return b
	}
	if isConst(b, true) {
		return a
	}
	if isConst(a, false) {
		return a
	}
	return &B{op: "and", a: a, b: b}
}
func bOr(a, b *B) *B {
	if isConst(a, false) {
		return b
	}
	if isConst(b, false) {
		return a
	}
	if isConst(a, true) {
		return a
	}
	return &B{op: "or", a: a, b: b}
}
func bIte(c, t, e *B) *B {
	if isConst(c, true) {
		return t
	}
	if isConst(c, false) {
		return e
	}
	if isConst(t, true) {
		return bOr(c, e)
	}
	if isConst(t, false) {
		return bAnd(bNot(c), e)
	}
	if isConst(e, false) {
		return bAnd(c, t)
	}
	if isConst(e, true) {
		return bOr(bNot(c), t)
	}
	return &B{op: "ite", c: c, a: t, b: e}
}

// ---------- symbolic values ----------

type (
	vBytes  []byte
	vInt    int64
	vString string
	vTable  []any
	vLen    struct{}          // len(raw)
	vMinCap struct{ c int64 } // min(c, len(raw))
	vSlice  struct {          // raw[lo:hi]
		lo     int64
		hiKind int // 0 = len(raw), 1 = constant, 2 = min(hi, len(raw))
		hi     int64
	}
	vLimit struct{}
)

type env struct {
	vars   map[string]any
	parent *env
}

func (e *env) get(n string) (any, bool) {
	for x := e; x != nil; x = x.parent {
		if v, ok := x.vars[n]; ok {
			return v, true
		}
	}
	return nil, false
}
func (e *env) child() *env { return &env{vars: map[string]any{}, parent: e} }

type pkgInfo struct {
	vars  map[string]ast.Expr      // package-level var name -> initializer
	funcs map[string]*ast.FuncDecl // package-level funcs
	depth int
}

var externalConsts = map[string]int64{
	"macho.MagicFat": 0xcafebabe,
	"macho.Magic32":  0xfeedface,
	"macho.Magic64":  0xfeedfacf,
}

type xerr struct{ msg string }

func (x xerr) Error() string { return x.msg }
func bad(format string, a ...any) error {
	return xerr{fmt.Sprintf(format, a...)}
}

func unquote(lit *ast.BasicLit) (any, error) {
	switch lit.Kind {
	case token.INT:
		v, err := strconv.ParseInt(lit.Value, 0, 64)
		if err != nil {
			u, err2 := strconv.ParseUint(lit.Value, 0, 64)
			if err2 != nil {
				return nil, err
			}
			return vInt(int64(u)), nil
		}
		return vInt(v), nil
	case token.CHAR:
		s, err := strconv.Unquote(lit.Value)
		if err != nil {
			return nil, err
		}
		r := []rune(s)
		return vInt(int64(r[0])), nil
	case token.STRING:
		s, err := strconv.Unquote(lit.Value)
		if err != nil {
			return nil, err
		}
		return vString(s), nil
	}
	return nil, bad("literal kind %v", lit.Kind)
}

func (p *pkgInfo) evalConstBytes(e ast.Expr, en *env) ([]byte, error) {
	v, err := p.eval(e, en)
	if err != nil {
		return nil, err
	}
	switch x := v.(type) {
	case vBytes:
		return []byte(x), nil
	case vString:
		return []byte(string(x)), nil
	}
	return nil, bad("not constant bytes: %T", v)
}

func typeIsByteSlice(t ast.Expr) bool {
	at, ok := t.(*ast.ArrayType)
	if !ok || at.Len != nil {
		return false
	}
	id, ok := at.Elt.(*ast.Ident)
	return ok && id.Name == "byte"
}

func (p *pkgInfo) evalComposite(cl *ast.CompositeLit, en *env, elemByteSlice bool) (any, error) {
	// []byte{...}
	if cl.Type != nil && typeIsByteSlice(cl.Type) || cl.Type == nil && elemByteSlice {
		out := vBytes{}
		for _, el := range cl.Elts {
			v, err := p.eval(el, en)
			if err != nil {
				return nil, err
			}
			iv, ok := v.(vInt)
			if !ok {
				return nil, bad("byte literal element %T", v)
			}
			out = append(out, byte(iv))
		}
		return out, nil
	}
	at, ok := cl.Type.(*ast.ArrayType)
	if !ok {
		return nil, bad("composite literal type")
	}
	inner := typeIsByteSlice(at.Elt)
	tab := vTable{}
	for _, el := range cl.Elts {
		if c2, ok := el.(*ast.CompositeLit); ok && c2.Type == nil {
			v, err := p.evalComposite(c2, en, inner)
			if err != nil {
				return nil, err
			}
			tab = append(tab, v)
			continue
		}
		v, err := p.eval(el, en)
		if err != nil {
			return nil, err
		}
		if s, ok := v.(vString); ok && inner {
			v = vBytes(string(s))
		}
		tab = append(tab, v)
	}
	return tab, nil
}

func asI(v any) (*I, bool) {
	switch x := v.(type) {
	case vInt:
		if x < 0 {
			return nil, false
		}
		return &I{op: "lit", n: int64(x)}, true
	case *I:
		return x, true
	}
	return nil, false
}

func selName(e ast.Expr) string {
	switch x := e.(type) {
	case *ast.Ident:
		return x.Name
	case *ast.SelectorExpr:
		return selName(x.X) + "." + x.Sel.Name
	}
	return "?"
}

func (p *pkgInfo) eval(e ast.Expr, en *env) (any, error) {
	switch x := e.(type) {
	case *ast.ParenExpr:
		return p.eval(x.X, en)
	case *ast.BasicLit:
		return unquote(x)
	case *ast.Ident:
		if x.Name == "true" {
			return bConst(true), nil
		}
		if x.Name == "false" {
			return bConst(false), nil
		}
		if v, ok := en.get(x.Name); ok {
			return v, nil
		}
		if init, ok := p.vars[x.Name]; ok {
			return p.eval(init, (&env{}).child())
		}
		return nil, bad("unknown identifier %s", x.Name)
	case *ast.SelectorExpr:
		if c, ok := externalConsts[selName(x)]; ok {
			return vInt(c), nil
		}
		return nil, bad("selector %s", selName(x))
	case *ast.CompositeLit:
		return p.evalComposite(x, en, false)
	case *ast.UnaryExpr:
		v, err := p.eval(x.X, en)
		if err != nil {
			return nil, err
		}
		if x.Op == token.NOT {
			b, ok := v.(*B)
			if !ok {
				return nil, bad("! on %T", v)
			}
			return bNot(b), nil
		}
		return nil, bad("unary %v", x.Op)
	case *ast.IndexExpr:
		base, err := p.eval(x.X, en)
		if err != nil {
			return nil, err
		}
		idx, err := p.eval(x.Index, en)
		if err != nil {
			return nil, err
		}
		iv, ok := idx.(vInt)
		if !ok {
			return nil, bad("non-constant index")
		}
		switch b := base.(type) {
		case vSlice:
			if b.hiKind == 1 && b.lo+int64(iv) >= b.hi {
				return nil, bad("constant index out of constant slice")
			}
			if b.hiKind == 2 {
				return nil, bad("index into min-capped slice")
			}
			return &I{op: "byte", n: b.lo + int64(iv)}, nil
		case vBytes:
			if int(iv) >= len(b) {
				return nil, bad("const index out of range")
			}
			return vInt(b[iv]), nil
		case vTable:
			if int(iv) >= len(b) {
				return nil, bad("const index out of range")
			}
			return b[iv], nil
		}
		return nil, bad("index of %T", base)
	case *ast.SliceExpr:
		base, err := p.eval(x.X, en)
		if err != nil {
			return nil, err
		}
		if x.Slice3 {
			return nil, bad("3-index slice")
		}
		var lo any = vInt(0)
		if x.Low != nil {
			if lo, err = p.eval(x.Low, en); err != nil {
				return nil, err
			}
		}
		lov, ok := lo.(vInt)
		if !ok {
			return nil, bad("non-constant slice low")
		}
		switch b := base.(type) {
		case vSlice:
			if b.hiKind != 0 {
				return nil, bad("re-slicing a bounded slice")
			}
			if x.High == nil {
				return vSlice{lo: b.lo + int64(lov)}, nil
			}
			hi, err := p.eval(x.High, en)
			if err != nil {
				return nil, err
			}
			switch h := hi.(type) {
			case vInt:
				if int64(h) < int64(lov) {
					return nil, bad("slice hi<lo")
				}
				return vSlice{lo: b.lo + int64(lov), hiKind: 1, hi: b.lo + int64(h)}, nil
			case vMinCap:
				if b.lo != 0 {
					return nil, bad("min-capped slice of shifted slice")
				}
				return vSlice{lo: int64(lov), hiKind: 2, hi: h.c}, nil
			case vLen:
				if b.lo != 0 {
					return nil, bad("len-capped slice of shifted slice")
				}
				return vSlice{lo: int64(lov)}, nil
			}
			return nil, bad("slice high %T", hi)
		case vBytes:
			hi := int64(len(b))
			if x.High != nil {
				h, err := p.eval(x.High, en)
				if err != nil {
					return nil, err
				}
				hv, ok := h.(vInt)
				if !ok {
					return nil, bad("const slice high")
				}
				hi = int64(hv)
			}
			return vBytes(b[lov:hi]), nil
		}
		return nil, bad("slice of %T", base)
	case *ast.BinaryExpr:
		return p.evalBinary(x, en)
	case *ast.CallExpr:
		return p.evalCall(x, en)
	}
	return nil, bad("expression %T", e)
}

func (p *pkgInfo) evalBinary(x *ast.BinaryExpr, en *env) (any, error) {
	l, err := p.eval(x.X, en)
	if err != nil {
		return nil, err
	}
	// short-circuit operators: right side evaluated symbolically as well
	r, err := p.eval(x.Y, en)
	if err != nil {
		return nil, err
	}
	switch x.Op {
	case token.LAND, token.LOR:
		lb, ok1 := l.(*B)
		rb, ok2 := r.(*B)
		if !ok1 || !ok2 {
			return nil, bad("logical op on %T,%T", l, r)
		}
		if x.Op == token.LAND {
			return bAnd(lb, rb), nil
		}
		return bOr(lb, rb), nil
	case token.ADD, token.SUB, token.MUL:
		li, ok1 := l.(vInt)
		ri, ok2 := r.(vInt)
		if !ok1 || !ok2 {
			return nil, bad("arithmetic on %T,%T", l, r)
		}
		switch x.Op {
		case token.ADD:
			return li + ri, nil
		case token.SUB:
			return li - ri, nil
		default:
			return li * ri, nil
		}
	case token.AND:
		if li, ok := l.(vInt); ok {
			if ri, ok := r.(vInt); ok {
				return li & ri, nil
			}
		}
		la, ok1 := l.(*I)
		ri, ok2 := r.(vInt)
		if !ok1 || !ok2 {
			return nil, bad("& on %T,%T", l, r)
		}
		return &I{op: "band", a: la, n: int64(ri)}, nil
	case token.EQL, token.NEQ, token.LSS, token.LEQ, token.GTR, token.GEQ:
		return p.evalCompare(x.Op, l, r)
	}
	return nil, bad("binary op %v", x.Op)
}

// vMember is the value of bytes.IndexByte(table, x) for a constant table: only its sign is ever used
// (`>= 0`, `!= -1`, `< 0`, `== -1`), i.e. whether x is one of the table's bytes
type vMember struct{ in *B }

func (p *pkgInfo) evalCompare(op token.Token, l, r any) (any, error) {
	if m, ok := l.(vMember); ok {
		k, ok := r.(vInt)
		if !ok {
			return nil, bad("IndexByte compared with %T", r)
		}
		switch {
		case (op == token.GEQ && k == 0) || (op == token.GTR && k == -1) || (op == token.NEQ && k == -1):
			return m.in, nil
		case (op == token.LSS && k == 0) || (op == token.LEQ && k == -1) || (op == token.EQL && k == -1):
			return bNot(m.in), nil
		}
		return nil, bad("IndexByte compared with %d by %v", int64(k), op)
	}
	// len(raw) against a constant
	if _, ok := l.(vLen); ok {
		k, ok := r.(vInt)
		if !ok {
			return nil, bad("len compared with %T", r)
		}
		switch op {
		case token.GEQ:
			return &B{op: "lenGe", k: int64(k)}, nil
		case token.GTR:
			return &B{op: "lenGe", k: int64(k) + 1}, nil
		case token.LSS:
			return bNot(&B{op: "lenGe", k: int64(k)}), nil
		case token.LEQ:
			return bNot(&B{op: "lenGe", k: int64(k) + 1}), nil
		}
		return nil, bad("len ==/!= constant")
	}
	if _, ok := r.(vLen); ok {
		flip := map[token.Token]token.Token{token.LSS: token.GTR, token.GTR: token.LSS, token.LEQ: token.GEQ, token.GEQ: token.LEQ, token.EQL: token.EQL, token.NEQ: token.NEQ}
		return p.evalCompare(flip[op], r, l)
	}
	if li, ok := l.(vInt); ok {
		if ri, ok := r.(vInt); ok {
			var v bool
			switch op {
			case token.EQL:
				v = li == ri
			case token.NEQ:
				v = li != ri
			case token.LSS:
				v = li < ri
			case token.LEQ:
				v = li <= ri
			case token.GTR:
				v = li > ri
			case token.GEQ:
				v = li >= ri
			}
			return bConst(v), nil
		}
	}
	la, ok1 := asI(l)
	ra, ok2 := asI(r)
	if !ok1 || !ok2 {
		return nil, bad("comparison of %T,%T", l, r)
	}
	switch op {
	case token.EQL:
		return &B{op: "cmp", cmp: "eq", ia: la, ib: ra}, nil
	case token.NEQ:
		return &B{op: "cmp", cmp: "ne", ia: la, ib: ra}, nil
	case token.LSS:
		return &B{op: "cmp", cmp: "lt", ia: la, ib: ra}, nil
	case token.LEQ:
		return &B{op: "cmp", cmp: "le", ia: la, ib: ra}, nil
	case token.GTR:
		return &B{op: "cmp", cmp: "lt", ia: ra, ib: la}, nil
	case token.GEQ:
		return &B{op: "cmp", cmp: "le", ia: ra, ib: la}, nil
	}
	return nil, bad("compare op")
}

func (p *pkgInfo) evalCall(x *ast.CallExpr, en *env) (any, error) {
	// conversions and builtins
	if at, ok := x.Fun.(*ast.ArrayType); ok && typeIsByteSlice(at) && len(x.Args) == 1 {
		v, err := p.eval(x.Args[0], en)
		if err != nil {
			return nil, err
		}
		if s, ok := v.(vString); ok {
			return vBytes(string(s)), nil
		}
		return nil, bad("[]byte(%T)", v)
	}
	name := selName(x.Fun)
	args := make([]any, len(x.Args))
	for i, a := range x.Args {
		v, err := p.eval(a, en)
		if err != nil {
			return nil, err
		}
		args[i] = v
	}
	switch name {
	case "len":
		switch a := args[0].(type) {
		case vSlice:
			if a.lo == 0 && a.hiKind == 0 {
				return vLen{}, nil
			}
			if a.hiKind == 1 {
				return vInt(a.hi - a.lo), nil
			}
		case vBytes:
			return vInt(len(a)), nil
		case vTable:
			return vInt(len(a)), nil
		}
		return nil, bad("len(%T)", args[0])
	case "min":
		if c, ok := args[0].(vInt); ok {
			if _, ok := args[1].(vLen); ok {
				return vMinCap{int64(c)}, nil
			}
		}
		if c, ok := args[1].(vInt); ok {
			if _, ok := args[0].(vLen); ok {
				return vMinCap{int64(c)}, nil
			}
		}
		return nil, bad("min(%T,%T)", args[0], args[1])
	case "int", "int64", "uint32", "uint64", "uint16", "byte", "rune":
		switch args[0].(type) {
		case vInt, *I:
			return args[0], nil
		}
		return nil, bad("%s(%T)", name, args[0])
	case "bytes.HasPrefix":
		s, ok := args[0].(vSlice)
		sig, ok2 := args[1].(vBytes)
		if !ok || !ok2 || s.hiKind != 0 {
			return nil, bad("HasPrefix(%T,%T)", args[0], args[1])
		}
		return &B{op: "prefixAt", k: s.lo, sig: sig}, nil
	case "bytes.Equal":
		s, ok := args[0].(vSlice)
		sig, ok2 := args[1].(vBytes)
		if !ok || !ok2 {
			return nil, bad("Equal(%T,%T)", args[0], args[1])
		}
		if s.hiKind == 1 {
			return &B{op: "equalAt", k: s.lo, k2: s.hi, sig: sig}, nil
		}
		if s.hiKind == 0 && s.lo == 0 {
			return &B{op: "equalAll", sig: sig}, nil
		}
		return nil, bad("Equal on open slice")
	case "bytes.IndexByte":
		// membership of one input byte in a constant table: the disjunction of the equalities
		tbl, ok := args[0].(vBytes)
		x, ok2 := asI(args[1])
		if !ok || !ok2 || len(tbl) == 0 {
			return nil, bad("IndexByte(%T,%T)", args[0], args[1])
		}
		var acc *B
		for _, t := range tbl {
			eq := &B{op: "cmp", cmp: "eq", ia: x, ib: &I{op: "lit", n: int64(t)}}
			if acc == nil {
				acc = eq
			} else {
				acc = &B{op: "or", a: acc, b: eq}
			}
		}
		return vMember{acc}, nil
	case "bytes.Contains":
		s, ok := args[0].(vSlice)
		sig, ok2 := args[1].(vBytes)
		if !ok || !ok2 {
			return nil, bad("Contains(%T,%T)", args[0], args[1])
		}
		if s.hiKind == 2 {
			return &B{op: "containsUpTo", k: s.lo, k2: s.hi, sig: sig}, nil
		}
		if s.hiKind == 0 && s.lo == 0 {
			return &B{op: "containsAll", sig: sig}, nil
		}
		return nil, bad("Contains on slice shape")
	case "binary.BigEndian.Uint16", "binary.LittleEndian.Uint16", "binary.BigEndian.Uint32", "binary.LittleEndian.Uint32":
		s, ok := args[0].(vSlice)
		if !ok || s.hiKind == 2 {
			return nil, bad("UintN(%T)", args[0])
		}
		w := int64(2)
		op := "u16"
		if strings.HasSuffix(name, "32") {
			w, op = 4, "u32"
		}
		if strings.Contains(name, "Big") {
			op += "be"
		} else {
			op += "le"
		}
		need := s.lo + w
		if s.hiKind == 1 {
			if s.hi-s.lo < w {
				return nil, bad("UintN on too-short constant slice")
			}
			if s.hi > need {
				need = s.hi
			}
		}
		return &I{op: op, n: s.lo, need: need}, nil
	case "matchOleClsid":
		s, ok := args[0].(vSlice)
		sig, ok2 := args[1].(vBytes)
		if !ok || !ok2 || s.lo != 0 || s.hiKind != 0 {
			return nil, bad("matchOleClsid args")
		}
		return &B{op: "oleClsid", sig: sig}, nil
	case "zipContains":
		s, ok := args[0].(vSlice)
		sig, ok2 := args[1].(vBytes)
		mso, ok3 := args[2].(*B)
		if !ok || !ok2 || !ok3 || mso.op != "const" || s.lo != 0 || s.hiKind != 0 {
			return nil, bad("zipContains args")
		}
		return &B{op: "zipContains", sig: sig, bval: mso.bval}, nil
	}
	// package-level detector or helper called on (raw[, limit])
	if id, ok := x.Fun.(*ast.Ident); ok {
		if p.depth > 8 {
			return nil, bad("call depth")
		}
		if fd, ok := p.funcs[id.Name]; ok {
			p.depth++
			defer func() { p.depth-- }()
			return p.inlineFunc(fd.Type, fd.Body, args)
		}
		if init, ok := p.vars[id.Name]; ok {
			// a Detector-valued variable built by a combinator
			p.depth++
			defer func() { p.depth-- }()
			fl, cenv, err := p.closureOf(init)
			if err != nil {
				return nil, err
			}
			return p.inlineClosure(fl, cenv, args)
		}
	}
	return nil, bad("call %s", name)
}

// closureOf evaluates `prefix(a, b...)`-style initialisers: it finds the combinator's
// returned func literal and binds the combinator parameters.
func (p *pkgInfo) closureOf(init ast.Expr) (*ast.FuncLit, *env, error) {
	call, ok := init.(*ast.CallExpr)
	if !ok {
		return nil, nil, bad("detector var initialiser %T", init)
	}
	id, ok := call.Fun.(*ast.Ident)
	if !ok {
		return nil, nil, bad("combinator %s", selName(call.Fun))
	}
	fd, ok := p.funcs[id.Name]
	if !ok {
		return nil, nil, bad("unknown combinator %s", id.Name)
	}
	if len(fd.Body.List) != 1 {
		return nil, nil, bad("combinator %s body", id.Name)
	}
	ret, ok := fd.Body.List[0].(*ast.ReturnStmt)
	if !ok || len(ret.Results) != 1 {
		return nil, nil, bad("combinator %s body", id.Name)
	}
	fl, ok := ret.Results[0].(*ast.FuncLit)
	if !ok {
		return nil, nil, bad("combinator %s does not return a func literal", id.Name)
	}
	cenv := (&env{}).child()
	var argv []any
	for _, a := range call.Args {
		v, err := p.eval(a, (&env{}).child())
		if err != nil {
			return nil, nil, err
		}
		if s, ok := v.(vString); ok {
			v = vBytes(string(s))
		}
		argv = append(argv, v)
	}
	ai := 0
	for _, f := range fd.Type.Params.List {
		_, variadic := f.Type.(*ast.Ellipsis)
		for _, n := range f.Names {
			if variadic {
				cenv.vars[n.Name] = vTable(argv[ai:])
				ai = len(argv)
			} else {
				if ai >= len(argv) {
					return nil, nil, bad("combinator arity")
				}
				cenv.vars[n.Name] = argv[ai]
				ai++
			}
		}
	}
	return fl, cenv, nil
}

func (p *pkgInfo) bindParams(ft *ast.FuncType, args []any, en *env) error {
	i := 0
	for _, f := range ft.Params.List {
		names := f.Names
		if len(names) == 0 {
			names = []*ast.Ident{{Name: "_"}}
		}
		for _, n := range names {
			if i >= len(args) {
				return bad("arity")
			}
			if n.Name != "_" {
				en.vars[n.Name] = args[i]
			}
			i++
		}
	}
	if i != len(args) {
		return bad("arity")
	}
	return nil
}

func (p *pkgInfo) inlineFunc(ft *ast.FuncType, body *ast.BlockStmt, args []any) (any, error) {
	en := (&env{}).child()
	if err := p.bindParams(ft, args, en); err != nil {
		return nil, err
	}
	return p.stmts(body.List, en, nil)
}

func (p *pkgInfo) inlineClosure(fl *ast.FuncLit, cenv *env, args []any) (any, error) {
	en := cenv.child()
	if err := p.bindParams(fl.Type, args, en); err != nil {
		return nil, err
	}
	return p.stmts(fl.Body.List, en, nil)
}

// stmts translates a statement list; k is the value when control falls off the end
// (nil: falling off is an error).
func (p *pkgInfo) stmts(list []ast.Stmt, en *env, k func() (*B, error)) (*B, error) {
	if len(list) == 0 {
		if k == nil {
			return nil, bad("control falls off the end")
		}
		return k()
	}
	rest := func() (*B, error) { return p.stmts(list[1:], en, k) }
	switch s := list[0].(type) {
	case *ast.ReturnStmt:
		if len(s.Results) != 1 {
			return nil, bad("return arity")
		}
		v, err := p.eval(s.Results[0], en)
		if err != nil {
			return nil, err
		}
		b, ok := v.(*B)
		if !ok {
			return nil, bad("return of %T", v)
		}
		return b, nil
	case *ast.AssignStmt:
		if len(s.Lhs) != 1 || len(s.Rhs) != 1 || (s.Tok != token.DEFINE && s.Tok != token.ASSIGN) {
			return nil, bad("assignment form")
		}
		id, ok := s.Lhs[0].(*ast.Ident)
		if !ok {
			return nil, bad("assignment target")
		}
		v, err := p.eval(s.Rhs[0], en)
		if err != nil {
			return nil, err
		}
		if _, isB := v.(*B); isB {
			return nil, bad("boolean local")
		}
		en2 := en.child()
		en2.vars[id.Name] = v
		r, err := p.stmts(list[1:], en2, k)
		if err != nil {
			return nil, err
		}
		if iv, ok := v.(*I); ok && iv.touchesRaw() {
			// the Go code evaluates the right-hand side here: keep its bounds checks
			r = bAnd(&B{op: "cmp", cmp: "le", ia: &I{op: "lit", n: 0}, ib: iv}, r)
		}
		return r, nil
	case *ast.DeclStmt:
		return nil, bad("declaration statement")
	case *ast.IfStmt:
		en2 := en
		if s.Init != nil {
			as, ok := s.Init.(*ast.AssignStmt)
			if !ok || len(as.Lhs) != 1 || len(as.Rhs) != 1 {
				return nil, bad("if-init form")
			}
			v, err := p.eval(as.Rhs[0], en)
			if err != nil {
				return nil, err
			}
			en2 = en.child()
			en2.vars[as.Lhs[0].(*ast.Ident).Name] = v
		}
		cv, err := p.eval(s.Cond, en2)
		if err != nil {
			return nil, err
		}
		c, ok := cv.(*B)
		if !ok {
			return nil, bad("if condition %T", cv)
		}
		// `if c { if d { S } }` with no else: merge into `if c && d { S }`
		if s.Else == nil && len(s.Body.List) == 1 {
			if inner, ok := s.Body.List[0].(*ast.IfStmt); ok && inner.Else == nil && inner.Init == nil {
				dv, err := p.eval(inner.Cond, en2)
				if err != nil {
					return nil, err
				}
				d, ok := dv.(*B)
				if !ok {
					return nil, bad("if condition %T", dv)
				}
				c = bAnd(c, d)
				s = &ast.IfStmt{Cond: s.Cond, Body: inner.Body}
			}
		}
		var elseB func() (*B, error)
		if s.Else != nil {
			eb, ok := s.Else.(*ast.BlockStmt)
			if !ok {
				return nil, bad("else-if")
			}
			elseB = func() (*B, error) { return p.stmts(eb.List, en2, rest) }
		} else {
			elseB = rest
		}
		t, err := p.stmts(s.Body.List, en2, rest)
		if err != nil {
			return nil, err
		}
		e, err := elseB()
		if err != nil {
			return nil, err
		}
		return bIte(c, t, e), nil
	case *ast.RangeStmt:
		tv, err := p.eval(s.X, en)
		if err != nil {
			return nil, err
		}
		var elems []any
		switch t := tv.(type) {
		case vTable:
			elems = t
		case vBytes:
			for _, b := range t {
				elems = append(elems, vInt(b))
			}
		default:
			return nil, bad("range over %T", tv)
		}
		var loop func(i int) (*B, error)
		loop = func(i int) (*B, error) {
			if i == len(elems) {
				return rest()
			}
			e2 := en.child()
			if s.Key != nil {
				if id := s.Key.(*ast.Ident); id.Name != "_" {
					e2.vars[id.Name] = vInt(i)
				}
			}
			if s.Value != nil {
				if id := s.Value.(*ast.Ident); id.Name != "_" {
					e2.vars[id.Name] = elems[i]
				}
			}
			return p.stmts(s.Body.List, e2, func() (*B, error) { return loop(i + 1) })
		}
		return loop(0)
	case *ast.ForStmt:
		// for i := a; i < b; i++ { ... } with constant a, b
		init, ok := s.Init.(*ast.AssignStmt)
		if !ok || len(init.Lhs) != 1 {
			return nil, bad("for init")
		}
		iname := init.Lhs[0].(*ast.Ident).Name
		av, err := p.eval(init.Rhs[0], en)
		if err != nil {
			return nil, err
		}
		a, ok := av.(vInt)
		if !ok {
			return nil, bad("for init value")
		}
		cond, ok := s.Cond.(*ast.BinaryExpr)
		if !ok || cond.Op != token.LSS {
			return nil, bad("for cond")
		}
		if id, ok := cond.X.(*ast.Ident); !ok || id.Name != iname {
			return nil, bad("for cond var")
		}
		bv, err := p.eval(cond.Y, en)
		if err != nil {
			return nil, err
		}
		b, ok := bv.(vInt)
		if !ok {
			return nil, bad("for bound")
		}
		inc, ok := s.Post.(*ast.IncDecStmt)
		if !ok || inc.Tok != token.INC {
			return nil, bad("for post")
		}
		if b-a > 64 {
			return nil, bad("loop too long to unroll")
		}
		var loop func(i int64) (*B, error)
		loop = func(i int64) (*B, error) {
			if i >= int64(b) {
				return rest()
			}
			e2 := en.child()
			e2.vars[iname] = vInt(i)
			return p.stmts(s.Body.List, e2, func() (*B, error) { return loop(i + 1) })
		}
		return loop(int64(a))
	case *ast.SwitchStmt:
		if s.Init != nil || s.Tag == nil {
			return nil, bad("switch form")
		}
		tv, err := p.eval(s.Tag, en)
		if err != nil {
			return nil, err
		}
		var clause func(i int) (*B, error)
		clause = func(i int) (*B, error) {
			if i == len(s.Body.List) {
				return rest()
			}
			cc := s.Body.List[i].(*ast.CaseClause)
			if cc.List == nil {
				if i != len(s.Body.List)-1 {
					return nil, bad("default not last")
				}
				return p.stmts(cc.Body, en, rest)
			}
			c := bConst(false)
			for _, ce := range cc.List {
				cv, err := p.eval(ce, en)
				if err != nil {
					return nil, err
				}
				eq, err := p.evalCompare(token.EQL, tv, cv)
				if err != nil {
					return nil, err
				}
				c = bOr(c, eq.(*B))
			}
			t, err := p.stmts(cc.Body, en, rest)
			if err != nil {
				return nil, err
			}
			e, err := clause(i + 1)
			if err != nil {
				return nil, err
			}
			return bIte(c, t, e), nil
		}
		return clause(0)
	case *ast.BlockStmt:
		return p.stmts(append(append([]ast.Stmt{}, s.List...), list[1:]...), en, k)
	}
	return nil, bad("statement %T", list[0])
}
