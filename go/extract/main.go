package main

// Fact extractor: reads /repo's current sources with go/ast and regenerates the
// data-like part of the Lean model (lean/MimeModel/Gen/*.lean) plus facts.json.
//
//   extract <repo> <outdir-for-lean-Gen> <facts.json>

import (
	"encoding/json"
	"fmt"
	"go/ast"
	"go/parser"
	"go/token"
	"os"
	"path/filepath"
	"sort"
	"strconv"
	"strings"
)

var fset = token.NewFileSet()

func parseDir(dir string) map[string]*ast.File {
	pkgs, err := parser.ParseDir(fset, dir, func(fi os.FileInfo) bool {
		return !strings.HasSuffix(fi.Name(), "_test.go")
	}, parser.ParseComments)
	if err != nil {
		fatal("parse %s: %v", dir, err)
	}
	out := map[string]*ast.File{}
	for _, p := range pkgs {
		for n, f := range p.Files {
			out[n] = f
		}
	}
	return out
}

func fatal(format string, a ...any) {
	fmt.Fprintf(os.Stderr, "EXTRACT-ERROR: "+format+"\n", a...)
	os.Exit(2)
}

type facts struct {
	Detectors    map[string]string   `json:"detectors"` // name -> kind
	Untranslated map[string]string   `json:"untranslated"`
	Literals     map[string][]int64  `json:"literals"`
	Signatures   map[string][]string `json:"signatures"` // hex
	Nodes        int                 `json:"nodes"`
	Notes        []string            `json:"notes"`
}

var customKinds = map[string]string{
	"Text": "text", "Php": "php", "JSON": "json", "GeoJSON": "geojson", "HAR": "har", "GLTF": "gltf",
	"NdJSON": "ndjson", "Srt": "srt", "Csv": "csv", "Tsv": "tsv", "Tar": "tar", "CRX": "crx",
	"WebM": "webm", "Mkv": "mkv",
}

func collectPkg(files map[string]*ast.File) *pkgInfo {
	p := &pkgInfo{vars: map[string]ast.Expr{}, funcs: map[string]*ast.FuncDecl{}}
	for _, f := range files {
		for _, d := range f.Decls {
			switch x := d.(type) {
			case *ast.FuncDecl:
				if x.Recv == nil {
					p.funcs[x.Name.Name] = x
				}
			case *ast.GenDecl:
				if x.Tok != token.VAR && x.Tok != token.CONST {
					continue
				}
				for _, s := range x.Specs {
					vs := s.(*ast.ValueSpec)
					for i, n := range vs.Names {
						if i < len(vs.Values) {
							p.vars[n.Name] = vs.Values[i]
						}
					}
				}
			}
		}
	}
	return p
}

func collectLits(n ast.Node) (ints []int64, sigs [][]byte) {
	seen := map[int64]bool{}
	ast.Inspect(n, func(x ast.Node) bool {
		if bl, ok := x.(*ast.BasicLit); ok {
			switch bl.Kind {
			case token.INT:
				if v, err := strconv.ParseInt(bl.Value, 0, 64); err == nil && !seen[v] {
					seen[v] = true
					ints = append(ints, v)
				}
			case token.STRING:
				if s, err := strconv.Unquote(bl.Value); err == nil && len(s) > 0 {
					sigs = append(sigs, []byte(s))
				}
			}
		}
		// []byte{0x.., ...} composites (typed, or elements of a [][]byte literal)
		if cl, ok := x.(*ast.CompositeLit); ok && len(cl.Elts) > 0 {
			var bs []byte
			good := true
			for _, el := range cl.Elts {
				bl, ok := el.(*ast.BasicLit)
				if !ok || (bl.Kind != token.INT && bl.Kind != token.CHAR) {
					good = false
					break
				}
				v, err := unquote(bl)
				if err != nil {
					good = false
					break
				}
				iv := int64(v.(vInt))
				if iv < 0 || iv > 255 {
					good = false
					break
				}
				bs = append(bs, byte(iv))
			}
			if good {
				sigs = append(sigs, bs)
			}
		}
		return true
	})
	sort.Slice(ints, func(i, j int) bool { return ints[i] < ints[j] })
	return
}

func isDetectorFunc(fd *ast.FuncDecl) bool {
	ps := fd.Type.Params.List
	n := 0
	for _, f := range ps {
		if len(f.Names) == 0 {
			n++
		} else {
			n += len(f.Names)
		}
	}
	if n != 2 || fd.Type.Results == nil || len(fd.Type.Results.List) != 1 {
		return false
	}
	if !typeIsByteSlice(ps[0].Type) {
		return false
	}
	if id, ok := fd.Type.Results.List[0].Type.(*ast.Ident); !ok || id.Name != "bool" {
		return false
	}
	last := ps[len(ps)-1].Type
	id, ok := last.(*ast.Ident)
	return ok && id.Name == "uint32"
}

// tableArgs evaluates the arguments of ciPrefix/markup/shebang (byte tables) or xml (xmlSig pairs)
func (p *pkgInfo) tableArgs(call *ast.CallExpr, isXML bool) (string, error) {
	var parts []string
	for _, a := range call.Args {
		if isXML {
			c, ok := a.(*ast.CallExpr)
			if !ok || selName(c.Fun) != "newXMLSig" || len(c.Args) != 2 {
				return "", bad("xml arg")
			}
			ln, err := p.evalConstBytes(c.Args[0], (&env{}).child())
			if err != nil {
				return "", err
			}
			ns, err := p.evalConstBytes(c.Args[1], (&env{}).child())
			if err != nil {
				return "", err
			}
			if len(ln) > 0 {
				ln = append([]byte("<"), ln...)
			}
			parts = append(parts, fmt.Sprintf("(%s, %s)", leanBytes(ln), leanBytes(ns)))
		} else {
			b, err := p.evalConstBytes(a, (&env{}).child())
			if err != nil {
				return "", err
			}
			parts = append(parts, leanBytes(b))
		}
	}
	return "[" + strings.Join(parts, ", ") + "]", nil
}

// checkNewXMLSig makes sure newXMLSig still has the shape the table extraction assumes.
func (p *pkgInfo) checkNewXMLSig() error {
	fd, ok := p.funcs["newXMLSig"]
	if !ok {
		return nil
	}
	var sb strings.Builder
	ast.Inspect(fd.Body, func(n ast.Node) bool {
		if bl, ok := n.(*ast.BasicLit); ok {
			sb.WriteString(bl.Value + ";")
		}
		return true
	})
	if sb.String() != "\"\";\"<%s\";" {
		return bad("newXMLSig body changed: literals %s", sb.String())
	}
	return nil
}

func (p *pkgInfo) detOf(name string) (kind string, lean string, why string) {
	if init, ok := p.vars[name]; ok {
		if call, ok := init.(*ast.CallExpr); ok {
			if id, ok := call.Fun.(*ast.Ident); ok {
				switch id.Name {
				case "ciPrefix", "markup", "shebang", "xml":
					t, err := p.tableArgs(call, id.Name == "xml")
					if err == nil {
						return id.Name, fmt.Sprintf(".%s %s", id.Name, t), ""
					}
					why = err.Error()
				}
			}
		}
		fl, cenv, err := p.closureOf(init)
		if err == nil {
			v, err2 := p.inlineClosure(fl, cenv, []any{vSlice{}, vLimit{}})
			if err2 == nil {
				return "expr", ".expr " + v.(*B).lean(), ""
			}
			err = err2
		}
		why = err.Error()
	} else if fd, ok := p.funcs[name]; ok {
		v, err := p.inlineFunc(fd.Type, fd.Body, []any{vSlice{}, vLimit{}})
		if err == nil {
			return "expr", ".expr " + v.(*B).lean(), ""
		}
		why = err.Error()
	} else {
		why = "no such detector"
	}
	if c, ok := customKinds[name]; ok {
		return "custom", ".custom ." + c, why
	}
	return "unknown", ".custom .unknown", why
}

func leanStr(s string) string { return strconv.Quote(s) }

func main() {
	if len(os.Args) != 5 {
		fatal("usage: extract <repo> <gen-dir> <facts.json> <registry.go>")
	}
	repo, gen, factsPath, regPath := os.Args[1], os.Args[2], os.Args[3], os.Args[4]
	os.MkdirAll(gen, 0o755)
	fx := &facts{Detectors: map[string]string{}, Untranslated: map[string]string{}, Literals: map[string][]int64{}, Signatures: map[string][]string{}}

	// ---------------- internal/magic ----------------
	magicFiles := parseDir(filepath.Join(repo, "internal", "magic"))
	mp := collectPkg(magicFiles)
	if err := mp.checkNewXMLSig(); err != nil {
		fatal("%v", err)
	}
	var detNames []string
	for n, init := range mp.vars {
		// every package-level variable initialised by a combinator call (exported or
		// helper such as phpPageF); table-like variables are not calls of identifiers
		if call, ok := init.(*ast.CallExpr); ok {
			if id, ok := call.Fun.(*ast.Ident); ok {
				if _, isFunc := mp.funcs[id.Name]; isFunc {
					detNames = append(detNames, n)
				}
			}
		}
	}
	for n, fd := range mp.funcs {
		if ast.IsExported(n) && isDetectorFunc(fd) {
			detNames = append(detNames, n)
		}
	}
	sort.Strings(detNames)
	var sb strings.Builder
	sb.WriteString("import MimeModel.Model.Det\n/- GENERATED by go/extract from internal/magic/*.go — do not edit -/\nnamespace Mime.Gen\nopen Mime\n\n")
	for _, n := range detNames {
		kind, lean, why := mp.detOf(n)
		fx.Detectors[n] = kind
		if why != "" {
			fx.Untranslated[n] = why
		}
		sb.WriteString(fmt.Sprintf("def d_%s : Det := %s\n", n, lean))
		var node ast.Node
		if init, ok := mp.vars[n]; ok {
			node = init
		} else {
			node = mp.funcs[n]
		}
		ints, sigs := collectLits(node)
		fx.Literals[n] = ints
		for _, s := range sigs {
			fx.Signatures[n] = append(fx.Signatures[n], fmt.Sprintf("%x", s))
		}
	}
	sb.WriteString("\ndef dets : List (String × Det) := [\n")
	for i, n := range detNames {
		sep := ","
		if i == len(detNames)-1 {
			sep = ""
		}
		sb.WriteString(fmt.Sprintf("  (%s, d_%s)%s\n", leanStr(n), n, sep))
	}
	sb.WriteString("]\n\nend Mime.Gen\n")
	writeIfChanged(filepath.Join(gen, "Sigs.lean"), sb.String())
	var rb strings.Builder
	rb.WriteString("//go:build verif\n\npackage magic\n\n// GENERATED by /verif/go/extract: detectors by name, for the harness.\nvar VerifDetectors = map[string]Detector{\n")
	for _, n := range detNames {
		rb.WriteString(fmt.Sprintf("\t%q: %s,\n", n, n))
	}
	rb.WriteString("}\n")
	writeIfChanged(regPath, rb.String())

	// ---------------- tree.go ----------------
	rootFiles := parseDir(repo)
	genTree(rootFiles, mp, gen, fx)
	genJSON(repo, gen, fx)
	genCharset(repo, gen, fx)
	genSync(rootFiles, repo, gen, fx)
	genWrites(repo, gen, fx)

	js, _ := json.MarshalIndent(fx, "", " ")
	os.WriteFile(factsPath, js, 0o644)
}

func writeIfChanged(path, content string) {
	old, err := os.ReadFile(path)
	if err == nil && string(old) == content {
		return
	}
	if err := os.WriteFile(path, []byte(content), 0o644); err != nil {
		fatal("write %s: %v", path, err)
	}
}

type treeNode struct {
	varName  string
	mime     string
	ext      string
	det      string // magic function name or "<true>" / "<false>"
	aliases  []string
	children []string
}

func strLit(e ast.Expr) (string, bool) {
	bl, ok := e.(*ast.BasicLit)
	if !ok || bl.Kind != token.STRING {
		return "", false
	}
	s, err := strconv.Unquote(bl.Value)
	return s, err == nil
}

func constFuncLit(e ast.Expr) (string, bool) {
	fl, ok := e.(*ast.FuncLit)
	if !ok || len(fl.Body.List) != 1 {
		return "", false
	}
	r, ok := fl.Body.List[0].(*ast.ReturnStmt)
	if !ok || len(r.Results) != 1 {
		return "", false
	}
	id, ok := r.Results[0].(*ast.Ident)
	if !ok || (id.Name != "true" && id.Name != "false") {
		return "", false
	}
	return "<" + id.Name + ">", true
}

func parseNewMIME(varName string, e ast.Expr) (*treeNode, error) {
	n := &treeNode{varName: varName}
	call, ok := e.(*ast.CallExpr)
	if !ok {
		return nil, bad("%s: not a call", varName)
	}
	if sel, ok := call.Fun.(*ast.SelectorExpr); ok && sel.Sel.Name == "alias" {
		for _, a := range call.Args {
			s, ok := strLit(a)
			if !ok {
				return nil, bad("%s: alias not a literal", varName)
			}
			n.aliases = append(n.aliases, s)
		}
		call, ok = sel.X.(*ast.CallExpr)
		if !ok {
			return nil, bad("%s: alias receiver", varName)
		}
	}
	if id, ok := call.Fun.(*ast.Ident); !ok || id.Name != "newMIME" || len(call.Args) < 3 {
		return nil, bad("%s: not newMIME", varName)
	}
	var ok1, ok2 bool
	n.mime, ok1 = strLit(call.Args[0])
	n.ext, ok2 = strLit(call.Args[1])
	if !ok1 || !ok2 {
		return nil, bad("%s: mime/ext not literals", varName)
	}
	switch d := call.Args[2].(type) {
	case *ast.SelectorExpr:
		if selName(d.X) != "magic" {
			return nil, bad("%s: detector %s", varName, selName(d))
		}
		n.det = d.Sel.Name
	case *ast.FuncLit:
		s, ok := constFuncLit(d)
		if !ok {
			return nil, bad("%s: detector is a non-constant func literal", varName)
		}
		n.det = s
	default:
		return nil, bad("%s: detector expression %T", varName, d)
	}
	for _, c := range call.Args[3:] {
		id, ok := c.(*ast.Ident)
		if !ok {
			return nil, bad("%s: child expression %T", varName, c)
		}
		n.children = append(n.children, id.Name)
	}
	return n, nil
}

func genTree(files map[string]*ast.File, mp *pkgInfo, gen string, fx *facts) {
	tf, ok := files[filepath.Join(filepath.Dir(firstKey(files)), "tree.go")]
	if !ok {
		fatal("tree.go not found")
	}
	nodes := map[string]*treeNode{}
	for _, d := range tf.Decls {
		gd, ok := d.(*ast.GenDecl)
		if !ok || gd.Tok != token.VAR {
			continue
		}
		for _, s := range gd.Specs {
			vs := s.(*ast.ValueSpec)
			for i, nm := range vs.Names {
				if i >= len(vs.Values) {
					continue
				}
				if nm.Name == "mu" {
					continue
				}
				n, err := parseNewMIME(nm.Name, vs.Values[i])
				if err != nil {
					// not a tree node (some other package-level variable)
					fx.Notes = append(fx.Notes, "tree.go: skipped variable: "+err.Error())
					continue
				}
				nodes[nm.Name] = n
			}
		}
	}
	if _, ok := nodes["root"]; !ok {
		fatal("tree.go: no root")
	}
	var sb strings.Builder
	sb.WriteString("import MimeModel.Model.Tree\nimport MimeModel.Gen.Sigs\n/- GENERATED by go/extract from tree.go — do not edit -/\nnamespace Mime.Gen\nopen Mime\n\n")
	emitted := map[string]bool{}
	count := 0
	var emit func(name string, stack []string)
	emit = func(name string, stack []string) {
		for _, s := range stack {
			if s == name {
				fatal("tree.go: cycle through %s", name)
			}
		}
		if emitted[name] {
			fatal("tree.go: node %s has two parents", name)
		}
		n, ok := nodes[name]
		if !ok {
			fatal("tree.go: unknown node %s", name)
		}
		for _, c := range n.children {
			emit(c, append(stack, name))
		}
		emitted[name] = true
		count++
		det := ""
		switch n.det {
		case "<true>":
			det = "(.expr (.const true))"
		case "<false>":
			det = "(.expr (.const false))"
		default:
			if _, ok := fx.Detectors[n.det]; !ok {
				fatal("tree.go: %s uses unknown detector magic.%s", name, n.det)
			}
			det = "d_" + n.det
		}
		var al []string
		for _, a := range n.aliases {
			al = append(al, leanBytes([]byte(a)))
		}
		var ch []string
		for _, c := range n.children {
			ch = append(ch, "n_"+c)
		}
		sb.WriteString(fmt.Sprintf("def n_%s : Tree Info := .node { name := %s, detName := %s, mime := %s, ext := %s, aliases := [%s], det := %s } [%s]\n",
			name, leanStr(name), leanStr(n.det), leanBytes([]byte(n.mime)), leanBytes([]byte(n.ext)), strings.Join(al, ", "), det, strings.Join(ch, ", ")))
	}
	emit("root", nil)
	fx.Nodes = count
	var orphan []string
	for n := range nodes {
		if !emitted[n] && n != "errMIME" {
			orphan = append(orphan, n)
		}
	}
	sort.Strings(orphan)
	if len(orphan) > 0 {
		fx.Notes = append(fx.Notes, "tree.go: nodes not reachable from root: "+strings.Join(orphan, ","))
	}
	if e, ok := nodes["errMIME"]; ok {
		emitted["errMIME"] = true
		det := "(.expr (.const false))"
		if e.det != "<false>" {
			det = "(.custom .unknown)"
		}
		sb.WriteString(fmt.Sprintf("def n_errMIME : Tree Info := .node { name := \"errMIME\", detName := %s, mime := %s, ext := %s, aliases := [], det := %s } []\n",
			leanStr(e.det), leanBytes([]byte(e.mime)), leanBytes([]byte(e.ext)), det))
	} else {
		fatal("tree.go: errMIME not found")
	}
	sb.WriteString("\ndef builtin : Tree Info := n_root\n")
	sb.WriteString(fmt.Sprintf("def orphanNodes : List String := [%s]\n", quoteAll(orphan)))
	sb.WriteString("\nend Mime.Gen\n")
	writeIfChanged(filepath.Join(gen, "Tree.lean"), sb.String())
}

func quoteAll(xs []string) string {
	var q []string
	for _, x := range xs {
		q = append(q, leanStr(x))
	}
	return strings.Join(q, ", ")
}

func firstKey(m map[string]*ast.File) string {
	for k := range m {
		return k
	}
	return ""
}
