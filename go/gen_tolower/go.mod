module gen_tolower

go 1.23
