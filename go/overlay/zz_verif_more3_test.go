//go:build verif

package mimetype

import (
	"bufio"
	"bytes"
	"errors"
	"fmt"
	"io"
	"os"
	"strconv"
	"strings"
)

func vfExecMore3(f []string, op string) (string, bool) {
	switch f[0] {
	case "reader": // reader lim hex chunks eofWithData errAt
		lim64, _ := strconv.ParseUint(f[1], 10, 32)
		data := vfUnhex(f[2])
		var chunks []int
		if f[3] != "~" {
			for _, c := range strings.Split(f[3], ",") {
				n, _ := strconv.Atoi(c)
				chunks = append(chunks, n)
			}
		}
		errAt, _ := strconv.Atoi(f[5])
		r := &vfScriptReader{data: data, chunks: chunks, eofWithData: f[4] == "1", errAt: errAt}
		SetLimit(uint32(lim64))
		var rd io.Reader = r
		if len(f) > 6 {
			// the same script behind a standard wrapper: what the wrapper takes from the script beyond what
			// DetectReader takes from the wrapper is the wrapper's business (buffering), so `pos` is not compared
			switch f[6] {
			case "bufio":
				rd = bufio.NewReader(r)
			case "bufio16":
				rd = bufio.NewReaderSize(r, 16)
			case "limited":
				rd = io.LimitReader(r, int64(len(data))+10)
			case "multi":
				rd = io.MultiReader(r, bytes.NewReader(nil))
			case "bytes":
				if errAt < 0 {
					rd = bytes.NewReader(data)
				}
			case "strings":
				if errAt < 0 {
					rd = strings.NewReader(string(data))
				}
			case "buffer":
				if errAt < 0 {
					rd = bytes.NewBuffer(append([]byte{}, data...))
				}
			case "lenshort", "lenzero", "lenhuge":
				// a reader that also has a Len() method which says nothing about what Read delivers (a decompressing
				// wrapper embedding its source buffer): DetectReader is specified on io.Reader alone
				if errAt < 0 {
					n := map[string]int{"lenshort": 3, "lenzero": 0, "lenhuge": 1 << 40}[f[6]]
					rd = &vfLenReader{r: bytes.NewReader(data), n: n}
				}
			case "bytesadv", "stringsadv", "sectionadv", "fileadv":
				// a seekable reader the caller has already advanced: it delivers `data`, and what lies in
				// front of its position (a PNG signature) is none of DetectReader's business
				if errAt < 0 {
					whole := append(append([]byte{}, vfAdvPrefix...), data...)
					switch f[6] {
					case "bytesadv":
						br := bytes.NewReader(whole)
						br.Seek(int64(len(vfAdvPrefix)), io.SeekStart)
						rd = br
					case "stringsadv":
						sr := strings.NewReader(string(whole))
						io.CopyN(io.Discard, sr, int64(len(vfAdvPrefix)))
						rd = sr
					case "sectionadv":
						sr := io.NewSectionReader(bytes.NewReader(whole), 3, int64(len(whole))-3)
						sr.Seek(int64(len(vfAdvPrefix))-3, io.SeekStart)
						rd = sr
					case "fileadv":
						if tf, err := os.CreateTemp("", "vf-adv-*"); err == nil {
							defer os.Remove(tf.Name())
							defer tf.Close()
							tf.Write(whole)
							tf.Seek(int64(len(vfAdvPrefix)), io.SeekStart)
							rd = tf
						}
					}
				}
			}
		}
		m, err := DetectReader(rd)
		d := Detect(data)
		if len(f) > 6 {
			return fmt.Sprintf("%s => %s %s %s %s", op, vfErrClass(err), "w", vfRes(m), vfRes(d)), true
		}
		return fmt.Sprintf("%s => %s %d %s %s", op, vfErrClass(err), r.pos, vfRes(m), vfRes(d)), true
	case "file": // file lim hex
		lim64, _ := strconv.ParseUint(f[1], 10, 32)
		data := vfUnhex(f[2])
		tf, err := os.CreateTemp("", "vf-*")
		if err != nil {
			return op + " => NOTEMP", true
		}
		name := tf.Name()
		defer os.Remove(name)
		tf.Write(data)
		tf.Close()
		SetLimit(uint32(lim64))
		m, err := DetectFile(name)
		d := Detect(data)
		return fmt.Sprintf("%s => %s %d %s %s", op, vfErrClass(err), 0, vfRes(m), vfRes(d)), true
	case "procfile": // procfile lim pathhex : a file whose stat size says nothing about its content (procfs: size 0)
		lim64, _ := strconv.ParseUint(f[1], 10, 32)
		path := string(vfUnhex(f[2]))
		data, rerr := os.ReadFile(path)
		if rerr != nil || len(data) == 0 {
			return op + " => UNREADABLE", true
		}
		SetLimit(uint32(lim64))
		m, err := DetectFile(path)
		again, _ := os.ReadFile(path)
		if !bytes.Equal(data, again) {
			return op + " => UNSTABLE", true
		}
		d := Detect(data)
		return fmt.Sprintf("%s => %s %d %s %s", op, vfErrClass(err), 0, vfRes(m), vfRes(d)), true
	case "filebad": // filebad missing|dir
		SetLimit(3072)
		var m *MIME
		var err error
		if f[1] == "dir" {
			m, err = DetectFile(os.TempDir())
		} else {
			m, err = DetectFile(os.TempDir() + "/vf-no-such-file-xyz")
		}
		cls := "nil"
		if err != nil {
			cls = "error"
		}
		return fmt.Sprintf("%s => %s %s", op, cls, vfRes(m)), true
	}
	return vfExecMore4(f, op)
}

type vfLenReader struct {
	r io.Reader
	n int
}

func (l *vfLenReader) Read(p []byte) (int, error) { return l.r.Read(p) }
func (l *vfLenReader) Len() int                   { return l.n }
func (l *vfLenReader) Size() int64                { return int64(l.n) }

var vfSentinel = errors.New("verif: injected read failure")

var vfAdvPrefix = []byte("\x89PNG\r\n\x1a\n\x00\x00\x00\rIHDR envelope line\n")

func vfErrClass(err error) string {
	switch {
	case err == nil:
		return "nil"
	case err == vfSentinel:
		return "sentinel"
	case err == io.EOF || err == io.ErrUnexpectedEOF:
		return "eof"
	}
	return "other"
}

func vfRes(m *MIME) string {
	if m == nil {
		return "NILMIME"
	}
	return vfChain(m) + "/" + vfHex([]byte(m.String()))
}

type vfScriptReader struct {
	data        []byte
	chunks      []int
	eofWithData bool
	errAt       int
	pos         int
	calls       int
}

func (r *vfScriptReader) Read(p []byte) (int, error) {
	r.calls++
	if len(p) == 0 {
		return 0, nil
	}
	if r.errAt >= 0 && r.pos == r.errAt {
		return 0, vfSentinel
	}
	if r.pos >= len(r.data) {
		return 0, io.EOF
	}
	avail := len(r.data) - r.pos
	if r.errAt > r.pos && r.errAt-r.pos < avail {
		avail = r.errAt - r.pos
	}
	c := len(p)
	if len(r.chunks) > 0 {
		c = r.chunks[0]
		r.chunks = r.chunks[1:]
	}
	d := len(p)
	if c < d {
		d = c
	}
	if avail < d {
		d = avail
	}
	copy(p, r.data[r.pos:r.pos+d])
	r.pos += d
	if r.eofWithData && d > 0 && r.pos == len(r.data) && r.errAt != r.pos {
		return d, io.EOF
	}
	return d, nil
}

func (g *vfGen) runMore3(slice string) bool {
	switch slice {
	case "C05":
		g.genC05()
	default:
		return g.runMore4(slice)
	}
	return true
}

func (g *vfGen) chunks(total int) string {
	if g.intn(4) == 0 {
		return "~"
	}
	var cs []string
	n := g.intn(12)
	for i := 0; i < n; i++ {
		var c int
		switch g.intn(5) {
		case 0:
			c = 0
		case 1:
			c = 1
		case 2:
			c = 1 + g.intn(7)
		case 3:
			c = 1 + g.intn(total+2)
		default:
			c = 512 + g.intn(4096)
		}
		cs = append(cs, strconv.Itoa(c))
	}
	if len(cs) == 0 {
		return "~"
	}
	return strings.Join(cs, ",")
}

func (g *vfGen) genC05() {
	corpus := vfCorpus()
	var inputs [][]byte
	for _, c := range corpus {
		if len(c) > 20000 {
			c = c[:20000]
		}
		inputs = append(inputs, c)
	}
	inputs = append(inputs, []byte{}, []byte("a"), g.textBytes(5000), g.bytes(7000))
	// text followed by binary: classification depends on how much is read
	tb := append(g.textBytes(64), g.bytes(64)...)
	inputs = append(inputs, tb, append(g.textBytes(3072), 0, 1, 2), append(g.textBytes(3071), 0))
	// a JSON document longer than the default limit, CSV, NDJSON
	js := []byte("{\"k\":[")
	for i := 0; i < 900; i++ {
		js = append(js, []byte(fmt.Sprintf("%d,", i))...)
	}
	js = append(js, []byte("0]}")...)
	inputs = append(inputs, js, []byte("a,b\n1,2\n3,4\n5,"), []byte("{\"a\":1}\n{\"b\":2}\n{\"c\":"))
	n := g.pick(2500, 60000)
	for i := 0; i < n; i++ {
		in := inputs[g.intn(len(inputs))]
		var lim int
		switch g.intn(8) {
		case 0:
			lim = 0
		case 1:
			lim = 3072
		case 2:
			lim = len(in)
		case 3:
			lim = len(in) + 1
		case 4:
			if len(in) > 0 {
				lim = len(in) - 1
			}
		case 5:
			lim = 1 + g.intn(64)
		case 6:
			lim = 4096 + g.intn(8192)
		default:
			lim = 1 + g.intn(len(in)+2)
		}
		errAt := -1
		if g.intn(3) == 0 {
			switch g.intn(4) {
			case 0:
				errAt = 0
			case 1:
				errAt = len(in)
			case 2:
				errAt = lim
			default:
				errAt = g.intn(len(in) + 2)
			}
		}
		g.emit(vfOp("reader", lim, in, g.chunks(len(in)), g.intn(2), errAt))
		if i%4 == 0 {
			w := []string{"bufio", "bufio16", "limited", "multi", "bytes", "strings", "buffer", "bytesadv", "stringsadv", "sectionadv", "fileadv"}[g.intn(11)]
			g.emit(vfOp("reader", lim, in, g.chunks(len(in)), g.intn(2), errAt, w))
		}
		if i%10 == 0 {
			g.emit(vfOp("file", lim, in))
		}
	}
	// the unlimited path on larger contents (a hidden cap would show)
	for _, sz := range []int{100000, 1 << 20} {
		if !g.thorough && sz > 200000 {
			continue
		}
		b := g.textBytes(sz)
		b[sz-1] = 0 // a binary byte at the very end
		g.emit(vfOp("reader", 0, b, g.chunks(sz), 1, -1))
		g.emit(vfOp("file", 0, b))
	}
	for _, w := range []string{"lenshort", "lenzero", "lenhuge"} {
		for _, in := range [][]byte{[]byte(`{"a":[1,2,3],"b":"long enough to matter"}`), []byte("%PDF-1.4\nxxxxxxxx"), []byte("plain text, more than three bytes"), {}} {
			for _, lim := range []int{0, 3072, 16, 5} {
				g.emit(vfOp("reader", lim, in, "~", 0, -1, w))
			}
		}
	}
	for _, w := range []string{"bytesadv", "stringsadv", "sectionadv", "fileadv"} {
		for _, in := range [][]byte{[]byte("plain text after the envelope"), []byte("%PDF-1.4\n"), []byte("{\"a\":1}"), {}, {0, 1, 2}} {
			for _, lim := range []int{0, 3072, 16, 5} {
				g.emit(vfOp("reader", lim, in, "~", 0, -1, w))
			}
		}
	}
	for _, w := range []string{"bufio", "bufio16", "limited", "multi", "bytes", "strings", "buffer", "bytesadv", "fileadv"} {
		for _, pos := range []int{4095, 4096, 5000, 8191} {
			b := g.textBytes(9000)
			b[pos] = 0
			for _, lim := range []int{0, 8192, pos + 1, pos, 3072, 16, 5} {
				g.emit(vfOp("reader", lim, b, "~", 0, -1, w))
			}
		}
	}
	g.emit("filebad missing")
	g.emit("filebad dir")
	for _, pth := range []string{"/proc/self/cmdline", "/proc/version", "/proc/self/environ", "/proc/self/auxv", "/proc/cpuinfo", "/proc/filesystems", "/sys/kernel/mm/transparent_hugepage/enabled"} {
		for _, lim := range []int{3072, 0, 64, 5} {
			g.emit(vfOp("procfile", lim, []byte(pth)))
		}
	}
}
