//go:build verif

package mimetype

import (
	"bytes"
	"sort"
)

// Directed seeds: hand-crafted headers that reach branches of the hand-coded signature checks
// which neither the suite's corpus nor the literal-derived inputs reach (found with
// tools/coverage.sh).  They are added to the seeds of the `dets` slice (every cut, flips,
// paddings are derived from them as from any other seed) and to the corpus of walk ops.
func vfPad(b []byte, n int) []byte {
	if len(b) >= n {
		return b
	}
	return append(append([]byte{}, b...), make([]byte, n-len(b))...)
}

func vfAt(b []byte, off int, v ...byte) []byte {
	c := vfPad(b, off+len(v))
	c = append([]byte{}, c...)
	copy(c[off:], v)
	return c
}

func vfDirected() map[string][][]byte {
	ole := []byte{0xD0, 0xCF, 0x11, 0xE0, 0xA1, 0xB1, 0x1A, 0xE1}
	dbf := vfAt(vfAt(vfPad([]byte{0x03, 0x7B}, 68), 2, 7, 21), 32, 'N', 'A', 'M', 'E')
	shp := vfAt(vfAt(vfPad(nil, 112), 0, 0, 0, 0x27, 0x0A), 28, 0xE8, 0x03, 0, 0)
	srt := func(l2 string) []byte { return []byte("1\n" + l2 + "\nHello\n\n2\n") }
	marc := vfAt(vfAt(vfPad([]byte("00714cam a2200205 a "), 64), 20, '4', '5', '0', '0'), 40, 0x1E)
	crx := func(pk, sig int, tail string) []byte {
		h := []byte{'C', 'r', '2', '4', 2, 0, 0, 0, byte(pk), byte(pk >> 8), 0, 0, byte(sig), byte(sig >> 8), 0, 0}
		return append(append(h, bytes.Repeat([]byte{'k'}, pk+sig)...), tail...)
	}
	// second lines of exactly 29 bytes (the length the Srt check asks for) with the separator anywhere in them:
	// short, empty and overlong time stamps on either side
	var srt29 [][]byte
	for p := 0; p+5 <= 29; p++ {
		l := []byte("00:02:16,61200:02:19,376xxxxx")[:24]
		line := append(append(append([]byte{}, l[:p]...), []byte(" --> ")...), l[p:]...)
		srt29 = append(srt29, []byte("1\n"+string(line)+"\nx\n"))
	}
	// compound files whose header fields (version, sector shift, first directory sector) take every odd value: the
	// class id is looked for at an offset computed from them
	var oleHdr [][]byte
	for _, size := range []int{512, 600, 4700} {
		for _, major := range []byte{3, 4, 0, 0xFF} {
			for _, shift := range [][]byte{{9, 0}, {12, 0}, {0, 0}, {15, 0}, {16, 0}, {31, 0}, {32, 0}, {62, 0}, {63, 0}, {64, 0}, {255, 0}, {0xFF, 0xFF}, {0, 0x80}} {
				for _, sec := range [][]byte{{0, 0, 0, 0}, {1, 0, 0, 0}, {0xFF, 0xFF, 0xFF, 0xFF}, {0xFF, 0xFF, 0xFF, 0x7F}, {0, 0, 0x80, 0}, {0xFE, 0xFF, 0xFF, 0xFF}} {
					h := vfAt(vfAt(vfAt(vfPad(ole, size), 26, major, 0), 30, shift...), 48, sec...)
					oleHdr = append(oleHdr, h)
				}
			}
		}
	}
	m := map[string][][]byte{
		"Doc": oleHdr,
		"CRX": {
			crx(10, 8, "PK\x03\x04rest"), crx(10, 8, "PK\x03\x04"), crx(10, 8, "PK\x03"), crx(10, 8, ""), crx(10, 8, "XK\x03\x04"), crx(0, 0, "PK\x03\x04"),
			crx(40, 20, "PK\x03\x04 and the archive goes on"), crx(40, 20, "not a zip"),
		},
		"Marc": {
			marc, vfAt(marc, 40, 0x1F), vfAt(marc, 0, '0', '0', '0', '2', '6'), vfAt(marc, 0, '9', '9', '9', '9', '9'), vfAt(marc, 4, 'x'), vfAt(marc, 23, '1'),
			marc[:24], marc[:41], append(vfPad(marc[:24], 2047), 0x1E), append(vfPad(marc[:24], 2048), 0x1E),
		},
		"MachO": {
			{0xCA, 0xFE, 0xBA, 0xBE, 0, 0, 0, 2, 0, 0, 0, 7}, {0xCA, 0xFE, 0xBA, 0xBE, 0, 0, 0, 0x13}, {0xCA, 0xFE, 0xBA, 0xBE, 0, 0, 0, 0x14},
			{0xCA, 0xFE, 0xBA, 0xBE, 0, 0, 0, 30}, {0xCA, 0xFE, 0xBA, 0xBE, 0, 0, 0, 31}, {0xCA, 0xFE, 0xBA, 0xBE, 0, 0, 0},
		},
		"Dbf": {
			dbf, vfAt(dbf, 28, 1), vfAt(dbf, 28, 2), vfAt(dbf, 0, 0x01), vfAt(dbf, 0, 0xFB), vfAt(dbf, 2, 12), vfAt(dbf, 2, 13), vfAt(dbf, 3, 31),
			vfAt(dbf, 3, 32), vfAt(dbf, 12, 1), vfAt(dbf, 13, 1), vfAt(dbf, 30, 1), vfAt(dbf, 31, 1), vfAt(dbf, 2, 0), vfAt(dbf, 3, 0),
		},
		"Shp": {
			shp, vfAt(shp, 108, 1, 0, 0, 0), vfAt(shp, 108, 2, 0, 0, 0), vfAt(shp, 108, 31, 0, 0, 0), vfAt(shp, 108, 32, 0, 0, 0),
			vfAt(shp, 108, 1, 1, 0, 0), vfAt(shp, 108, 5, 0, 0, 1), vfAt(shp, 24, 0, 0, 0, 50), vfAt(shp, 20, 0, 0, 0, 1), vfAt(shp, 28, 0xE9, 3, 0, 0),
		},
		"Ppt": {
			vfAt(vfPad(ole, 520), 512, 0xA0, 0x46, 0x1D, 0xF0), vfAt(vfPad(ole, 520), 512, 0x00, 0x6E, 0x1E, 0xF0),
			vfAt(vfPad(ole, 520), 512, 0x0F, 0x00, 0xE8, 0x03), vfAt(vfPad(ole, 520), 512, 0xFD, 0xFF, 0xFF, 0xFF, 9, 9, 0, 0),
			vfAt(vfPad(ole, 520), 512, 0xFD, 0xFF, 0xFF, 0xFF, 9, 9, 1, 0), vfAt(vfPad(ole, 520), 512, 0xFD, 0xFF, 0xFF, 0xFF, 9, 9, 0, 1),
			vfAt(vfPad(ole, 519), 512, 0xA0, 0x46, 0x1D, 0xF0),
			append(vfPad(ole, 1152), []byte("P\x00o\x00w\x00e\x00r\x00P\x00o\x00i\x00n\x00t\x00 D\x00o\x00c\x00u\x00m\x00e\x00n\x00t")...),
			append(vfPad(ole, 4070), []byte("P\x00o\x00w\x00e\x00r\x00P\x00o\x00i\x00n\x00t\x00 D\x00o\x00c\x00u\x00m\x00e\x00n\x00t")...),
			append(vfPad(ole, 1151), []byte("P\x00o\x00w\x00e\x00r\x00P\x00o\x00i\x00n\x00t\x00 D\x00o\x00c\x00u\x00m\x00e\x00n\x00t")...),
		},
		"Srt": append(srt29,
			srt("00:02:16,612 --> 00:02:19,376"), srt("00:02:16.612 --> 00:02:19,376"), srt("00:02:16,612 --> 00:02:19.376"),
			srt("00:02:16,612 --> 00:02:1x,376"), srt("00:02:1x,612 --> 00:02:19,376"), srt("00:02:19,376 --> 00:02:16,612"),
			srt("00:02:16,612 --> 00:02:16,612"), srt("00:02:16,612 -> 00:02:19,3760"), srt("00:02:16,612 --> 00:02:19,37"),
			srt("00:02:16,612 --> 00:02:19,3766"), []byte("1\r\n00:02:16,612 --> 00:02:19,376\r\nx\r\n"), []byte("1\n00:02:16,612 --> 00:02:19,376"),
			[]byte("1\n00:02:16,612 --> 00:02:19,376\n"), []byte("1\n00:02:16,612 --> 00:02:19,376\n\n"), []byte("2\n00:02:16,612 --> 00:02:19,376\nx\n"),
			[]byte("11\n00:02:16,612 --> 00:02:19,376\nx\n"), []byte("\n1\n00:02:16,612 --> 00:02:19,376\nx\n"),
		),
	}
	return m
}

// the same seeds as whole-file inputs of the tree walk
func vfDirectedAll() [][]byte {
	var out [][]byte
	d := vfDirected()
	var names []string
	for n := range d {
		names = append(names, n)
	}
	sort.Strings(names)
	for _, n := range names {
		for _, b := range d[n] {
			if !bytes.Equal(b, nil) {
				out = append(out, b)
			}
		}
	}
	return out
}

// intn never panics: a non-positive bound yields 0 (a generator bug must not look like a finding)
func (g *vfGen) intn(n int) int {
	if n <= 0 {
		return 0
	}
	return g.rng.Intn(n)
}
