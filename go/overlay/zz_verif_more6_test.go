//go:build verif

package mimetype

func (g *vfGen) runMore6(slice string) bool { return false }

func vfExecMore6(f []string, op string) (string, bool) { return "", false }
