//go:build verif

package mimetype

import (
	"io"
	vzip "archive/zip"
	"bytes"
	"compress/flate"
	"fmt"
	"strings"

	"github.com/gabriel-vasile/mimetype/internal/magic"
)

func vfExecMore6(f []string, op string) (string, bool) {
	switch f[0] {
	case "ziplayout": // ziplayout hex : split the archive into its local entries (layout of Spec/Zip.lean) + verdicts
		data := vfUnhex(f[1])
		zr, err := vzip.NewReader(bytes.NewReader(data), int64(len(data)))
		if err != nil {
			return op + " => !", true
		}
		le16 := func(o int) int { return int(data[o]) | int(data[o+1])<<8 }
		off := 0
		var ents []string
		for _, zf := range zr.File {
			if off+30 > len(data) || !bytes.HasPrefix(data[off:], []byte("PK\x03\x04")) {
				return op + " => !", true
			}
			nl, xl := le16(off+26), le16(off+28)
			ds := off + 30 + nl + xl
			de := ds + int(zf.CompressedSize64)
			dl := 0
			if zf.Flags&8 != 0 {
				dl = 16 // archive/zip writes signature + crc + two 32-bit sizes
			}
			if de+dl > len(data) {
				return op + " => !", true
			}
			ents = append(ents, vfHex(data[off+4:off+30])+"|"+vfHex(data[off+30:off+30+nl])+"|"+vfHex(data[off+30+nl:ds])+"|"+vfHex(data[ds:de])+"|"+vfHex(data[de:de+dl]))
			off = de + dl
		}
		in, _ := vfExact(data)
		v := vfSafeDet(magic.Docx, in, 0)[:1] + vfSafeDet(magic.Xlsx, in, 0)[:1] + vfSafeDet(magic.Pptx, in, 0)[:1] + vfSafeDet(magic.Jar, in, 0)[:1]
		es := "~"
		if len(ents) > 0 {
			es = strings.Join(ents, ";")
		}
		return fmt.Sprintf("%s => %s %s %s", op, v, es, vfHex(data[off:])), true
	case "zip": // zip hex   (limit 0)
		data := vfUnhex(f[1])
		SetLimit(0)
		in, _ := vfExact(data)
		m := Detect(in)
		names := "~"
		first := "-" // content of the first entry when it is a stored file (what an OpenDocument / EPUB package starts with)
		if zr, err := vzip.NewReader(bytes.NewReader(data), int64(len(data))); err == nil {
			var ns []string
			for i, fl := range zr.File {
				ns = append(ns, vfHex([]byte(fl.Name)))
				if i == 0 && fl.Method == vzip.Store && fl.UncompressedSize64 > 0 && fl.UncompressedSize64 <= 256 {
					if rc, err := fl.Open(); err == nil {
						if b, err := io.ReadAll(rc); err == nil && len(b) > 0 {
							first = vfHex(b)
						}
						rc.Close()
					}
				}
			}
			if len(ns) > 0 {
				names = strings.Join(ns, ",")
			}
		} else {
			names = "!"
		}
		return fmt.Sprintf("%s => %s %s %s", op, vfChain(m), names, first), true
	}
	return vfExecMore7(f, op)
}

func (g *vfGen) runMore6(slice string) bool {
	switch slice {
	case "C19":
		g.genC19()
	default:
		return g.runMore7(slice)
	}
	return true
}

type vfEntry struct {
	name   string
	body   []byte
	stored bool
	nodesc bool // write sizes into the local header (no data descriptor)
}

func (g *vfGen) body(n int) []byte {
	if g.intn(3) == 0 {
		// highly compressible (XML-like repetition): compressed size << uncompressed size
		return bytes.Repeat([]byte("<Override PartName=\"/x\" ContentType=\"y\"/>"), 2+n/20)
	}
	b := make([]byte, n)
	for i := range b {
		b[i] = "abcdefghijklmnopqrstuvwxyz <>/=\"\n"[g.intn(33)]
	}
	return b
}

func vfZip(entries []vfEntry) []byte {
	var buf bytes.Buffer
	w := vzip.NewWriter(&buf)
	for _, e := range entries {
		h := &vzip.FileHeader{Name: e.name, Method: vzip.Deflate}
		if e.stored {
			h.Method = vzip.Store
		}
		if e.nodesc {
			// raw entry: we supply sizes and CRC, the writer emits no data descriptor
			var comp bytes.Buffer
			if e.stored {
				h.Method = vzip.Store
				comp.Write(e.body)
			} else {
				h.Method = vzip.Deflate
				fw, _ := flate.NewWriter(&comp, flate.BestCompression)
				fw.Write(e.body)
				fw.Close()
			}
			h.CompressedSize64 = uint64(comp.Len())
			h.UncompressedSize64 = uint64(len(e.body))
			h.CRC32 = vfCRC(e.body)
			fw, err := w.CreateRaw(h)
			if err == nil {
				fw.Write(comp.Bytes())
			}
			continue
		}
		fw, err := w.CreateHeader(h)
		if err == nil {
			fw.Write(e.body)
		}
	}
	w.Close()
	return buf.Bytes()
}

func vfCRC(b []byte) uint32 {
	crc := ^uint32(0)
	for _, x := range b {
		crc ^= uint32(x)
		for k := 0; k < 8; k++ {
			if crc&1 != 0 {
				crc = (crc >> 1) ^ 0xEDB88320
			} else {
				crc >>= 1
			}
		}
	}
	return ^crc
}

func (g *vfGen) genC19() {
	book := []string{"_rels/.rels", "docProps/app.xml", "docProps/core.xml", "customXml/item1.xml", "customXml/itemProps1.xml", "docProps/thumbnail.jpeg"}
	markers := map[string][]string{
		"docx": {"word/document.xml", "word/styles.xml", "word/_rels/document.xml.rels"},
		"xlsx": {"xl/workbook.xml", "xl/worksheets/sheet1.xml"},
		"pptx": {"ppt/presentation.xml", "ppt/slides/slide1.xml"},
	}
	near := []string{"words/document.xml", "Xl/workbook.xml", "pptx/presentation.xml", "wordcount.txt", "xlarge/picture.png", "images/word/doc.xml"}
	other := []string{"images/picture-0001.png", "data/readme-file.txt", "assets/stylesheet.css", "META-INF/container.xml", "content/chapter-01.xhtml"}
	mk := func(name string) vfEntry {
		return vfEntry{name: name, body: g.body(30 + g.intn(200)), stored: g.intn(3) == 0, nodesc: g.intn(4) == 0}
	}
	// inputs that start with PK but not with a local header (empty archive, spanned marker, central directory):
	// run before and between the archives, so that anything they leave behind shows in later answers
	pkOther := [][]byte{
		append([]byte("PK\x05\x06"), make([]byte, 18)...), append([]byte("PK\x07\x08"), g.bytes(40)...), append([]byte("PK\x01\x02"), g.bytes(60)...),
		[]byte("PK\x05\x06"), []byte("PK\x03"), []byte("PK"), append([]byte("PK\x30\x30PK\x03\x04"), make([]byte, 40)...),
	}
	count := 0
	emit := func(es []vfEntry) {
		if count%40 == 0 {
			for _, b := range pkOther {
				g.emit(vfOp("walk", b, 0))
			}
		}
		count++
		z := vfZip(es)
		g.emit(vfOp("walk", z, 0))
		g.emit(vfOp("zip", z))
		if len(z) <= 6000 {
			g.emit(vfOp("ziplayout", z))
		}
	}
	// archives without entries whose *comment* (written by the standard writer, after the 22-byte end record)
	// carries marker text: there is no entry name, so no marker
	for _, mk := range []string{"META-INF/MANIFEST.MF", "word/document.xml", "xl/workbook.xml", "ppt/slides", "classes.dex", "AndroidManifest.xml", "[Content_Types].xml"} {
		for _, lead := range []int{0, 7, 8, 9, 30} {
			var buf bytes.Buffer
			w := vzip.NewWriter(&buf)
			w.SetComment(strings.Repeat("c", lead) + mk)
			w.Close()
			z := buf.Bytes()
			g.emit(vfOp("walk", z, 0))
			g.emit(vfOp("zip", z))
		}
	}
	// an archive without any entry (a standard writer emits just the end-of-central-directory record) and
	// archives with a single unrelated entry: no marker, plain application/zip
	emit(nil)
	emit([]vfEntry{mk("readme.txt")})
	emit([]vfEntry{{name: "a", body: []byte("x"), stored: true, nodesc: true}})
	// directed: a short entry (26..44 bytes between the end of its header and the next signature,
	// the lower bound of the statement) at position 2..5, directly followed by the only marker
	exact := func(n int) []byte {
		b := make([]byte, n)
		for i := range b {
			b[i] = byte('a' + g.intn(26))
		}
		return b
	}
	for total := 26; total <= 44; total++ {
		for pos := 1; pos <= 4; pos++ {
			fam := []string{"docx", "xlsx", "pptx"}[(total+pos)%3]
			es := []vfEntry{mk("[Content_Types].xml")}
			for len(es) < pos {
				es = append(es, mk(book[g.intn(len(book))]))
			}
			name := "_rels/.rels"
			if total%2 == 0 {
				name = "a/b.x"
			}
			if total-len(name) >= 0 {
				es = append(es, vfEntry{name: name, body: exact(total - len(name)), stored: true, nodesc: true})
				es = append(es, mk(markers[fam][0]), mk(other[g.intn(len(other))]))
				emit(es)
			}
			if total-len(name)-16 >= 0 {
				// the same span made of name + body + 16-byte data descriptor
				es2 := []vfEntry{mk("[Content_Types].xml")}
				for len(es2) < pos {
					es2 = append(es2, mk(book[g.intn(len(book))]))
				}
				es2 = append(es2, vfEntry{name: name, body: exact(total - len(name) - 16), stored: true, nodesc: false})
				es2 = append(es2, mk(markers[fam][0]))
				emit(es2)
			}
		}
	}
	// directed: a large entry (more than 64 KiB stored or deflated) among the first six, in front of the marker
	for _, sz := range []int{65500, 65537, 70000, 140000} {
		for pos := 1; pos <= 4; pos++ {
			fam := []string{"docx", "xlsx", "pptx"}[(sz+pos)%3]
			es := []vfEntry{mk("[Content_Types].xml")}
			for len(es) < pos {
				es = append(es, mk(book[g.intn(len(book))]))
			}
			es = append(es, vfEntry{name: "docProps/thumbnail.jpeg", body: g.body(sz), stored: pos%2 == 0, nodesc: pos%3 == 0})
			es = append(es, mk(markers[fam][0]), mk(other[g.intn(len(other))]))
			emit(es)
		}
		emit([]vfEntry{mk("META-INF/MANIFEST.MF"), {name: "assets/big.bin", body: g.body(sz), stored: true, nodesc: true}, mk("classes.dex")})
	}
	// directed: few entries, no marker name, but marker text at every offset residue in a stored body
	for _, txt := range []string{"word/x", "xl/y", "ppt/zz", "META-INF/MANIFEST.MFq", "classes.dexq"} {
		for k := 1; k <= 5; k++ {
			var es []vfEntry
			for j := 0; j < k-1; j++ {
				es = append(es, mk(other[g.intn(len(other))]))
			}
			if k%2 == 0 {
				es = append([]vfEntry{mk("[Content_Types].xml")}, es...)
			}
			es = append(es, vfEntry{name: "_rels/.rels", body: []byte(strings.Repeat(txt, 70)), stored: true, nodesc: k%3 == 0})
			emit(es)
		}
	}
	n := g.pick(250, 6000)
	for i := 0; i < n; i++ {
		switch g.intn(7) {
		case 0, 1, 2: // OOXML: marker of one family at entry position 2..9
			fam := []string{"docx", "xlsx", "pptx"}[g.intn(3)]
			pos := 1 + g.intn(8)
			es := []vfEntry{mk("[Content_Types].xml")}
			if g.intn(10) == 0 {
				es[0] = mk([]string{"_rels/.rels", "docProps/app.xml", "customXml/item1.xml", "[trash]/0000.dat"}[g.intn(4)])
			}
			for len(es) < pos {
				pool := book
				if g.intn(4) == 0 {
					pool = near
				}
				es = append(es, mk(pool[g.intn(len(pool))]))
			}
			for _, m := range markers[fam] {
				es = append(es, mk(m))
			}
			es = append(es, mk(other[g.intn(len(other))]))
			emit(es)
		case 3: // JAR / APK
			es := []vfEntry{mk("META-INF/MANIFEST.MF")}
			if g.intn(2) == 0 {
				k := g.intn(7)
				for j := 0; j < k; j++ {
					es = append(es, mk(other[g.intn(len(other))]))
				}
				es = append(es, mk([]string{"AndroidManifest.xml", "classes.dex", "resources.arsc", "res/drawable/icon.png"}[g.intn(4)]))
			} else {
				for j := 0; j < 1+g.intn(5); j++ {
					es = append(es, mk(fmt.Sprintf("com/example/Class%04d.class", j)))
				}
			}
			emit(es)
		case 4: // OpenDocument / EPUB
			types := []string{"application/vnd.oasis.opendocument.text", "application/vnd.oasis.opendocument.text-template",
				"application/vnd.oasis.opendocument.spreadsheet", "application/vnd.oasis.opendocument.spreadsheet-template",
				"application/vnd.oasis.opendocument.presentation", "application/vnd.oasis.opendocument.presentation-template",
				"application/vnd.oasis.opendocument.graphics", "application/vnd.oasis.opendocument.graphics-template",
				"application/vnd.oasis.opendocument.formula", "application/vnd.oasis.opendocument.chart",
				"application/epub+zip", "application/vnd.sun.xml.calc"}
			t := types[g.intn(len(types))]
			es := []vfEntry{{name: "mimetype", body: []byte(t), stored: true, nodesc: g.intn(2) == 0}}
			es = append(es, mk("META-INF/manifest.xml"), mk("content.xml"), mk("styles.xml"))
			emit(es)
			// the same package with a marker of another family somewhere behind the mimetype file (a signed
			// document carries META-INF/MANIFEST.MF; "markers at any position")
			if g.intn(2) == 0 {
				all := []string{"META-INF/MANIFEST.MF", "classes.dex", "AndroidManifest.xml", "resources.arsc", "res/drawable/x.png", "word/document.xml", "xl/workbook.xml", "ppt/presentation.xml", "[Content_Types].xml"}
				es2 := []vfEntry{es[0]}
				rest := []vfEntry{mk("META-INF/manifest.xml"), mk("content.xml"), mk("styles.xml"), mk(all[g.intn(len(all))])}
				if g.intn(2) == 0 {
					rest = append(rest, mk(all[g.intn(len(all))]))
				}
				g.rng.Shuffle(len(rest), func(a, b int) { rest[a], rest[b] = rest[b], rest[a] })
				emit(append(es2, rest...))
			}
		case 5: // no marker at all
			var es []vfEntry
			if g.intn(4) == 0 {
				// a stored `mimetype` file naming an EPUB / OpenDocument type that is not the first entry (behind an
				// ordinary file, or behind the manifest of a JAR): only the first entry identifies such a package
				t := []string{"application/epub+zip", "application/vnd.oasis.opendocument.text", "application/vnd.oasis.opendocument.spreadsheet"}[g.intn(3)]
				firsts := []string{"META-INF/MANIFEST.MF", "README.txt", "content.opf", "[Content_Types].xml"}
				es2 := []vfEntry{mk(firsts[g.intn(len(firsts))])}
				for j := 0; j < g.intn(4); j++ {
					es2 = append(es2, mk(other[g.intn(len(other))]))
				}
				es2 = append(es2, vfEntry{name: "mimetype", body: []byte(t), stored: true, nodesc: g.intn(2) == 0})
				es2 = append(es2, mk("META-INF/container.xml"))
				emit(es2)
			}
			if g.intn(3) == 0 {
				// a stored first entry without extra field whose content starts with bytes that mean something at
				// that place to other readers of the format (the JAR extra-field id 0xCAFE, a class file, a manifest)
				heads := [][]byte{{0xFE, 0xCA, 0, 0}, {0xCA, 0xFE, 0xBA, 0xBE}, []byte("Manifest-Version: 1.0\n"), []byte("mimetype"), []byte("word/"), {0xFE, 0xCA}}
				b := append(append([]byte{}, heads[g.intn(len(heads))]...), g.body(20+g.intn(60))...)
				es = append(es, vfEntry{name: other[g.intn(len(other))], body: b, stored: true, nodesc: g.intn(2) == 0})
			}
			for j := 0; j < 1+g.intn(8); j++ {
				pool := other
				if g.intn(3) == 0 {
					pool = near
				}
				es = append(es, mk(pool[g.intn(len(pool))]))
			}
			emit(es)
		default: // marker first
			fam := []string{"docx", "xlsx", "pptx"}[g.intn(3)]
			es := []vfEntry{mk(markers[fam][0]), mk("[Content_Types].xml"), mk(book[g.intn(len(book))])}
			emit(es)
		}
	}
}
