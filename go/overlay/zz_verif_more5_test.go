//go:build verif

package mimetype

func (g *vfGen) runMore5(slice string) bool { return false }

func vfExecMore5(f []string, op string) (string, bool) { return "", false }
