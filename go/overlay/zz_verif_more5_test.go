//go:build verif

package mimetype

import (
	"strings"
	"encoding/hex"
	"sort"
	vtar "archive/tar"
	"bytes"
	"fmt"
	"strconv"
	"time"

	"github.com/gabriel-vasile/mimetype/internal/magic"
)

func vfExecMore5(f []string, op string) (string, bool) {
	switch f[0] {
	case "tar": // tar ok|bad lim hex
		lim64, _ := strconv.ParseUint(f[2], 10, 32)
		data := vfUnhex(f[3])
		SetLimit(uint32(lim64))
		in, ibuf := vfExact(data)
		m := Detect(in)
		m2 := Detect(in)
		flags := ""
		if vfChain(m2) != vfChain(m) {
			flags += " REPEAT-DIFFERS"
		}
		if !ibuf.intact() {
			flags += " MODIFIED"
		}
		hdr, _ := vfExact(vfHeader(data, uint32(lim64)))
		// does a higher-priority root format accept the header?
		earlier := "n"
		for _, c := range root.children {
			if c.mime == "application/x-tar" {
				break
			}
			if vfSafeDet(c.detector, hdr, uint32(lim64)) == "T" {
				earlier = "y:" + vfHex([]byte(c.mime)) // which higher-priority root format accepts the header
				break
			}
		}
		return fmt.Sprintf("%s => %s %s %s%s", op, vfChain(m), vfSafeDet(magic.Tar, hdr, uint32(lim64)), earlier, flags), true
	}
	return vfExecMore6(f, op)
}

func (g *vfGen) runMore5(slice string) bool {
	switch slice {
	case "C18":
		g.genC18()
	default:
		return g.runMore6(slice)
	}
	return true
}

func (g *vfGen) tarArchive() []byte {
	var buf bytes.Buffer
	w := vtar.NewWriter(&buf)
	formats := []vtar.Format{vtar.FormatUSTAR, vtar.FormatPAX, vtar.FormatGNU, vtar.FormatUnknown}
	n := 1 + g.intn(3)
	members := 0
	for i := 0; i < n; i++ {
		nameLen := 1 + g.intn(60)
		if g.intn(6) == 0 {
			nameLen = 90 + g.intn(120) // long names: PAX / GNU extension blocks come first
		}
		name := make([]byte, nameLen)
		for j := range name {
			name[j] = "abcdefghijklmnopqrstuvwxyz0123456789-_./"[g.intn(40)]
		}
		if g.intn(5) == 0 {
			name = append(name, []byte("\xc3\xa9\xe2\x82\xac")...)
		}
		if i == 0 && g.intn(6) == 0 {
			// names next to the one marker the check excludes (`/gpkg-1` followed by NUL inside the name field):
			// the same letters without the slash in front, with something behind, or filling the field to its end
			nm := []string{"gpkg-1", "gpkg-1/", "app/gpkg-1/", "x/gpkg-10", "a/gpkg-1.txt", "gpkg-1/data", "dir/gpkg-", strings.Repeat("d", 93) + "/gpkg-1", "app/gpkg-1"}
			name = []byte(nm[g.intn(len(nm))])
		}
		types := []byte{vtar.TypeReg, vtar.TypeDir, vtar.TypeSymlink, vtar.TypeLink, vtar.TypeFifo, vtar.TypeChar, vtar.TypeBlock}
		tf := types[g.intn(len(types))]
		if g.intn(6) == 0 {
			// type flags beyond the ones the standard library names: vendor extensions (volume label, dump directory,
			// multi-volume, Solaris ACL / extended attributes), which the writer stores as they are
			tf = []byte{'V', 'D', 'M', 'X', 'A', 'N', 'I', 'E', 'Z', 0}[g.intn(10)]
		}
		size := int64(0)
		if tf == vtar.TypeReg {
			size = int64(g.intn(700))
		} else if g.intn(3) == 0 {
			// a size on a member that has no content records (a directory with its allocation size, a device):
			// the writer stores it verbatim
			size = []int64{4096, 1 << 20, 512, 1}[g.intn(4)]
		}
		h := &vtar.Header{
			Typeflag: tf, Name: string(name), Mode: int64(g.intn(0o7777)), Uid: g.intn(1 << 21), Gid: g.intn(1 << 21),
			Size: size, ModTime: time.Unix(int64(g.intn(1<<31)), 0), Uname: "user", Gname: "group",
			Format: formats[g.intn(len(formats))],
		}
		if tf == vtar.TypeSymlink || tf == vtar.TypeLink {
			h.Linkname = "target/" + string(name[:1])
		}
		if tf == vtar.TypeChar || tf == vtar.TypeBlock {
			h.Devmajor, h.Devminor = int64(g.intn(255)), int64(g.intn(255))
		}
		if h.Format == vtar.FormatUSTAR && (len(h.Name) > 99 || g.intn(5) == 0 && false) {
			h.Format = vtar.FormatPAX
		}
		if err := w.WriteHeader(h); err != nil {
			// incompatible combination for the chosen format: let the writer choose
			h.Format = vtar.FormatUnknown
			if err := w.WriteHeader(h); err != nil {
				continue
			}
		}
		members++
		if size > 0 && tf == vtar.TypeReg {
			w.Write(g.bytes(int(size)))
		}
	}
	w.Close()
	if members == 0 {
		return nil // only the end-of-archive blocks: not an archive with members
	}
	return buf.Bytes()
}

func (g *vfGen) genC18() {
	n := g.pick(150, 2000)
	for i := 0; i < n; i++ {
		a := g.tarArchive()
		if len(a) < 512 {
			continue
		}
		for _, lim := range []int{0, 3072, 512, 513} {
			g.emit(vfOp("tar", "ok", lim, a))
		}
		g.emit(vfOp("det", "Tar", a[:512], 0))
		g.emit(vfOp("det", "Tar", a[:511], 0))
		// other spellings of the same checksum value, and near misses: leading blanks and NULs, a NUL in the middle
		// of the field (the parser stops there), trailing garbage behind it, seven and eight digits
		if i%3 == 0 {
			field := string(a[148:156])
			digits := strings.TrimLeft(strings.Trim(field, " \x00"), "0")
			for _, f := range []string{digits + "\x007 ", " " + digits + "\x00\x00", "\x00" + digits + " \x00", digits + "  ", digits + "\x00\x00", "0" + digits + "\x00", digits + "\x0012",
				digits + "8", digits + "\x00" + digits, "0000000" + digits, " \x00 " + digits, digits + " 1"} {
				for len(f) < 8 {
					f = "0" + f
				}
				if len(f) > 8 {
					f = f[len(f)-8:]
				}
				c := append([]byte{}, a[:512]...)
				copy(c[148:156], f)
				g.emit(vfOp("det", "Tar", c, 0))
			}
		}
		// single-byte corruptions of the first block outside the checksum field
		exhaustive := g.thorough && i < 3
		if exhaustive {
			for pos := 0; pos < 512; pos++ {
				if pos >= 148 && pos < 156 {
					continue
				}
				for v := 0; v < 256; v++ {
					if byte(v) == a[pos] {
						continue
					}
					c := append([]byte{}, a[:512]...)
					c[pos] = byte(v)
					g.emit(vfOp("tar", "bad", 0, c))
				}
			}
		} else {
			for k := 0; k < g.pick(40, 200); k++ {
				pos := g.intn(512)
				if k%4 == 0 {
					pos = 500 + g.intn(12) // trailing padding
				}
				if pos >= 148 && pos < 156 {
					continue
				}
				c := append([]byte{}, a...)
				v := byte(g.intn(256))
				if k%3 == 0 {
					v = c[pos] ^ 0x80 // sign flips exercise the signed checksum
				}
				if v == c[pos] {
					continue
				}
				c[pos] = v
				g.emit(vfOp("tar", "bad", []int{0, 3072, 512}[g.intn(3)], c))
			}
		}
	}
	// member names that begin with the signature of another format: only the formats the property lists in front
	// of tar may take such an archive
	{
		fx := vfLoadFacts()
		seen := map[string]bool{}
		var names []string
		for _, sigs := range fx.Signatures {
			for _, sh := range sigs {
				lit, _ := hex.DecodeString(sh)
				if len(lit) < 2 || len(lit) > 40 || seen[string(lit)] {
					continue
				}
				ok := true
				for _, c := range lit {
					if c < 0x20 || c > 0x7E {
						ok = false
					}
				}
				if ok {
					seen[string(lit)] = true
					names = append(names, string(lit))
				}
			}
		}
		sort.Strings(names)
		for k, nm := range names {
			var buf bytes.Buffer
			w := vtar.NewWriter(&buf)
			body := g.textBytes(40)
			h := &vtar.Header{Typeflag: vtar.TypeReg, Name: nm + "notes.txt", Mode: 0o644, Size: int64(len(body)), Uname: "user", Gname: "group",
				ModTime: time.Unix(1700000000, 0), Format: []vtar.Format{vtar.FormatUSTAR, vtar.FormatPAX, vtar.FormatGNU}[k%3]}
			if err := w.WriteHeader(h); err != nil {
				continue
			}
			w.Write(body)
			w.Close()
			a := append([]byte{}, buf.Bytes()...)
			if len(a) < 512 {
				continue
			}
			g.emit(vfOp("tar", "ok", 0, a))
			g.emit(vfOp("tar", "ok", 3072, a))
		}
	}
	// headers whose byte sum needs all six octal digits (>= 0o100000): names and link names made of high bytes
	for k := 0; k < 12; k++ {
		var buf bytes.Buffer
		w := vtar.NewWriter(&buf)
		hb := []byte{0xE9, 0xFF, 0xFE, 0xC3}[k%4]
		nm := string(bytes.Repeat([]byte{hb}, 90+k%10))
		h := &vtar.Header{Typeflag: vtar.TypeSymlink, Name: nm, Linkname: string(bytes.Repeat([]byte{hb}, 100)), Mode: 0o777, Uname: strings.Repeat("\xfc", 31), Gname: strings.Repeat("\xfd", 31),
			ModTime: time.Unix(1700000000, 0), Format: vtar.FormatGNU}
		if err := w.WriteHeader(h); err != nil {
			continue
		}
		a := append([]byte{}, buf.Bytes()...)
		if len(a) < 512 {
			continue
		}
		for len(a) < 1024 {
			a = append(a, 0)
		}
		g.emit(vfOp("tar", "ok", 0, a))
		g.emit(vfOp("tar", "ok", 3072, a))
		g.emit(vfOp("det", "Tar", a[:512], 0))
	}
	// directed headers from the standard writer: base-256 numeric fields (size >= 8 GiB, large ids,
	// negative times) and the text "/gpkg-1" in fields other than the name
	for k := 0; k < 24; k++ {
		var buf bytes.Buffer
		w := vtar.NewWriter(&buf)
		h := &vtar.Header{Typeflag: vtar.TypeReg, Name: fmt.Sprintf("data/blob-%02d.bin", k), Mode: 0o644, Uname: "user", Gname: "group",
			ModTime: time.Unix(1700000000, 0), Format: vtar.FormatGNU}
		switch k % 6 {
		case 0:
			h.Size = 1 << 33
		case 1:
			h.Size = 1<<40 + int64(k)
		case 2:
			h.Uid, h.Gid = 1<<30, 1<<29
		case 3:
			h.ModTime = time.Unix(-int64(1000+k), 0)
		case 4:
			h.Typeflag, h.Linkname = vtar.TypeSymlink, "releases/gpkg-1"
			h.Format = []vtar.Format{vtar.FormatUSTAR, vtar.FormatPAX, vtar.FormatGNU}[k%3]
		default:
			h.Uname, h.Gname = "build/gpkg-1", "x/gpkg-1"
			h.Format = []vtar.Format{vtar.FormatUSTAR, vtar.FormatPAX, vtar.FormatGNU}[k%3]
		}
		if err := w.WriteHeader(h); err != nil {
			continue
		}
		a := append([]byte{}, buf.Bytes()...)
		if len(a) < 512 {
			continue
		}
		for len(a) < 1024 {
			a = append(a, 0)
		}
		for _, lim := range []int{0, 3072, 512} {
			g.emit(vfOp("tar", "ok", lim, a))
		}
	}
	// crafted checksum fields: spaces, NULs, 7/8 digits, signed-sum variants
	base := make([]byte, 512)
	copy(base, "file.txt")
	for i := 100; i < 148; i++ {
		base[i] = '0'
	}
	for _, hi := range []int{0, 3, 40} {
		b := append([]byte{}, base...)
		for j := 0; j < hi; j++ {
			b[200+j] = 0xF0 // high bytes: signed and unsigned sums differ
		}
		var us, ss int64
		for i, c := range b {
			if i >= 148 && i < 156 {
				c = ' '
			}
			us += int64(c)
			ss += int64(int8(c))
		}
		for _, sum := range []int64{us, ss, us + 1, ss - 1} {
			if sum < 0 {
				continue
			}
			for _, f := range []string{"%06o\x00 ", "%07o\x00", "%07o ", " %06o\x00", "%6o\x00 ", "%08o", "\x00\x00%06o", "%06o  "} {
				field := fmt.Sprintf(f, sum)
				if len(field) != 8 {
					continue
				}
				c := append([]byte{}, b...)
				copy(c[148:156], field)
				g.emit(vfOp("det", "Tar", c, 0))
				g.emit(vfOp("tar", "any", 0, c))
			}
		}
	}
	// gpkg names are rejected on purpose
	gp := append([]byte{}, base...)
	copy(gp, "pkg-1.0/gpkg-1\x00")
	g.emit(vfOp("det", "Tar", gp, 0))
}
