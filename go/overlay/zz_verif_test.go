//go:build verif

package mimetype

// Correspondence harness (injected with `go test -c -tags verif -overlay`; never
// written into /repo).  It executes operations of a line protocol against the real
// code and prints `op args => result`; the Lean driver replays the same lines on the
// model.  See /verif/DESIGN.md §5.

import (
	"bufio"
	"bytes"
	"encoding/hex"
	vxml "encoding/xml"
	"fmt"
	"io"
	"math/rand"
	"os"
	"strconv"
	"strings"
	"testing"
	"time"

	"github.com/gabriel-vasile/mimetype/internal/charset"
	vjson "github.com/gabriel-vasile/mimetype/internal/json"
	"github.com/gabriel-vasile/mimetype/internal/magic"
	vhtml "golang.org/x/net/html"
)

func TestMain(m *testing.M) {
	cmd := os.Getenv("VERIF_CMD")
	if cmd == "" {
		os.Exit(m.Run())
	}
	out := bufio.NewWriterSize(os.Stdout, 1<<20)
	defer out.Flush()
	switch cmd {
	case "bombchild":
		vfBombChild()
		os.Exit(0)
	case "hugechild":
		vfHugeChild()
		os.Exit(0)
	case "gen":
		seed, _ := strconv.ParseInt(os.Getenv("VERIF_SEED"), 10, 64)
		tier := os.Getenv("VERIF_TIER")
		slice := os.Getenv("VERIF_SLICE")
		g := &vfGen{rng: rand.New(rand.NewSource(seed ^ int64(vfHash(slice)))), thorough: tier == "thorough", out: out}
		if !g.run(slice) {
			fmt.Fprintf(os.Stderr, "unknown slice %q\n", slice)
			out.Flush()
			os.Exit(3)
		}
	case "replay":
		sc := bufio.NewScanner(os.Stdin)
		sc.Buffer(make([]byte, 1<<20), 1<<28)
		for sc.Scan() {
			line := sc.Text()
			if i := strings.Index(line, " => "); i >= 0 {
				line = line[:i]
			}
			if strings.TrimSpace(line) == "" {
				continue
			}
			fmt.Fprintln(out, vfExecT(line))
			out.Flush()
		}
	default:
		fmt.Fprintf(os.Stderr, "unknown VERIF_CMD %q\n", cmd)
		os.Exit(3)
	}
	out.Flush()
	if os.Getenv("VERIF_COVER") != "" {
		// coverage build: let the testing package write the profile (run with -test.run=^$ -test.coverprofile=...)
		os.Exit(m.Run())
	}
	os.Exit(0)
}

func vfHash(s string) uint32 {
	var h uint32 = 2166136261
	for i := 0; i < len(s); i++ {
		h = (h ^ uint32(s[i])) * 16777619
	}
	return h
}

func vfHex(b []byte) string {
	if len(b) == 0 {
		return "-"
	}
	return hex.EncodeToString(b)
}

func vfUnhex(s string) []byte {
	if s == "-" {
		return []byte{}
	}
	b, err := hex.DecodeString(s)
	if err != nil {
		panic("bad hex " + s)
	}
	return b
}

// vfExact returns a copy of b whose capacity equals its length, placed inside a
// canary-filled array so that writes outside (and inside) can be noticed.
type vfBuf struct {
	arr  []byte
	off  int
	orig []byte
}

func vfExact(b []byte) ([]byte, *vfBuf) {
	const pad = 32
	arr := make([]byte, len(b)+2*pad)
	for i := range arr {
		arr[i] = 0xA5
	}
	copy(arr[pad:], b)
	orig := append([]byte{}, b...)
	return arr[pad : pad+len(b) : pad+len(b)], &vfBuf{arr: arr, off: pad, orig: orig}
}

func (v *vfBuf) intact() bool {
	n := len(v.orig)
	for i := 0; i < v.off; i++ {
		if v.arr[i] != 0xA5 {
			return false
		}
	}
	for i := v.off + n; i < len(v.arr); i++ {
		if v.arr[i] != 0xA5 {
			return false
		}
	}
	return bytes.Equal(v.arr[v.off:v.off+n], v.orig)
}

func vfSafeDet(d magic.Detector, raw []byte, lim uint32) (res string) {
	defer func() {
		if r := recover(); r != nil {
			res = "PANIC"
		}
	}()
	// a detector only reads its input: the bytes are compared with a pristine copy after every call
	// (the copy is made once per input); a detector that wrote gets the verdict "W" and the bytes are
	// put back, so that the following detectors are judged on the original input
	if len(raw) > 0 {
		if len(vfPristine) != len(raw) || vfPristineOf != &raw[0] || !bytes.Equal(raw, vfPristine) {
			vfPristine = append(vfPristine[:0], raw...)
			vfPristineOf = &raw[0]
		}
	}
	v := d(raw, lim)
	if len(raw) > 0 && !bytes.Equal(raw, vfPristine) {
		copy(raw, vfPristine)
		return "W"
	}
	if v {
		return "T"
	}
	return "F"
}

var (
	vfPristine   []byte
	vfPristineOf *byte
)

func vfChain(m *MIME) string {
	var parts []string
	for x := m; x != nil; x = x.Parent() {
		mt := x.mime
		if x == m {
			// the leaf may carry parameters; report the bare type here
			if i := strings.IndexByte(mt, ';'); i >= 0 {
				mt = mt[:i]
			}
		}
		parts = append(parts, vfHex([]byte(mt))+"|"+vfHex([]byte(x.Extension())))
	}
	return strings.Join(parts, ",")
}

func vfHTMLToks(content []byte) string {
	z := vhtml.NewTokenizer(bytes.NewReader(content))
	var toks []string
	for {
		tt := z.Next()
		if tt == vhtml.ErrorToken {
			break
		}
		if tt != vhtml.StartTagToken && tt != vhtml.SelfClosingTagToken {
			continue
		}
		name, hasAttr := z.TagName()
		t := vfHex(name)
		var attrs []string
		for hasAttr {
			var k, v []byte
			k, v, hasAttr = z.TagAttr()
			attrs = append(attrs, vfHex(k)+"="+vfHex(v))
		}
		if len(attrs) > 0 {
			t += ":" + strings.Join(attrs, "&")
		}
		toks = append(toks, t)
	}
	if len(toks) == 0 {
		return "~"
	}
	return strings.Join(toks, ",")
}

func vfIsWS(b byte) bool { return b == '\t' || b == '\n' || b == '\x0c' || b == '\r' || b == ' ' }

func vfXMLInst(content []byte) string {
	i := 0
	for i < len(content) && vfIsWS(content[i]) {
		i++
	}
	dec := vxml.NewDecoder(bytes.NewReader(content[i:]))
	dec.CharsetReader = func(label string, input io.Reader) (io.Reader, error) { return input, nil }
	t, err := dec.RawToken()
	if err != nil {
		return "~"
	}
	pi, ok := t.(vxml.ProcInst)
	if !ok {
		return "~"
	}
	return vfHex(pi.Inst)
}

func vfHeader(raw []byte, lim uint32) []byte {
	if lim > 0 && len(raw) > int(lim) {
		return raw[:lim]
	}
	return raw
}

// vfExec executes one operation and returns the full protocol line.
func vfExec(op string) (line string) {
	f := strings.Fields(op)
	defer func() {
		if r := recover(); r != nil {
			line = op + " => PANIC"
		}
	}()
	switch f[0] {
	case "det":
		d, ok := magic.VerifDetectors[f[1]]
		if !ok {
			return op + " => NODET"
		}
		raw, _ := vfExact(vfUnhex(f[2]))
		lim, _ := strconv.ParseUint(f[3], 10, 32)
		return strings.Join(f[:4], " ") + " => " + vfSafeDet(d, raw, uint32(lim))
	case "walk":
		data := vfUnhex(f[1])
		lim64, _ := strconv.ParseUint(f[2], 10, 32)
		lim := uint32(lim64)
		SetLimit(lim)
		in, buf := vfExact(data)
		var res string
		func() {
			defer func() {
				if r := recover(); r != nil {
					res = "PANIC"
				}
			}()
			m := Detect(in)
			res = vfChain(m) + " " + vfHex([]byte(m.String()))
		}()
		if !buf.intact() {
			res += " MODIFIED"
		}
		hdr, _ := vfExact(vfHeader(data, lim))
		var vb strings.Builder
		mu.RLock()
		nodes := root.flatten()
		mu.RUnlock()
		for _, n := range nodes {
			vb.WriteString(vfSafeDet(n.detector, hdr, lim)[:1])
		}
		return fmt.Sprintf("walk %s %d %s %s %s => %s", f[1], lim, vb.String(), vfHTMLToks(hdr), vfXMLInst(hdr), res)
	case "jparse":
		raw, _ := vfExact(vfUnhex(f[2]))
		p, i, t, q := vjson.Parse(f[1], raw)
		return fmt.Sprintf("jparse %s %s => %d %d %d %v", f[1], f[2], p, i, t, q)
	case "cs":
		raw, _ := vfExact(vfUnhex(f[2]))
		switch f[1] {
		case "plain":
			return fmt.Sprintf("cs plain %s => %s", f[2], vfHex([]byte(charset.FromPlain(raw))))
		case "html":
			toks := vfHTMLToks(raw)
			return fmt.Sprintf("cs html %s %s => %s", f[2], toks, vfHex([]byte(charset.FromHTML(raw))))
		case "xml":
			inst := vfXMLInst(raw)
			return fmt.Sprintf("cs xml %s %s => %s", f[2], inst, vfHex([]byte(charset.FromXML(raw))))
		}
	case "meta":
		return fmt.Sprintf("meta %s => %s", f[1], vfHex([]byte(charset.VerifFromMetaElement(string(vfUnhex(f[1]))))))
	case "xmlenc":
		return fmt.Sprintf("xmlenc %s => %s", f[1], vfHex([]byte(charset.VerifXMLEncoding(string(vfUnhex(f[1]))))))
	case "treeeq":
		return "treeeq => " + vfDumpTree()
	}
	if r, ok := vfExecMore(f, op); ok {
		return r
	}
	return op + " => BADOP"
}

func vfDumpTree() string {
	var parts []string
	var rec func(m *MIME)
	rec = func(m *MIME) {
		var al []string
		for _, a := range m.aliases {
			al = append(al, vfHex([]byte(a)))
		}
		parts = append(parts, fmt.Sprintf("%s|%s|%s/%d", vfHex([]byte(m.mime)), vfHex([]byte(m.extension)), strings.Join(al, "+"), len(m.children)))
		for _, c := range m.children {
			rec(c)
		}
	}
	mu.RLock()
	defer mu.RUnlock()
	rec(root)
	return strings.Join(parts, " ")
}

type vfGen struct {
	rng      *rand.Rand
	thorough bool
	out      *bufio.Writer
	n        int
}

func (g *vfGen) emit(op string) {
	fmt.Fprintln(g.out, vfExecT(op))
	g.n++
	if vfTimeouts > 5 {
		g.out.Flush()
		fmt.Fprintln(os.Stderr, "too many timeouts, giving up")
		os.Exit(4)
	}
}

var vfTimeouts int

// vfExecT runs one operation with a watchdog: an operation that does not return is
// reported as TIMEOUT (the stuck goroutine is abandoned).
func vfExecT(op string) string {
	ch := make(chan string, 1)
	go func() { ch <- vfExec(op) }()
	select {
	case r := <-ch:
		return r
	case <-time.After(vfOpTimeout):
		vfTimeouts++
		return op + " => TIMEOUT"
	}
}

var vfOpTimeout = 20 * time.Second

func (g *vfGen) pick(q, t int) int {
	if g.thorough {
		return t
	}
	return q
}

var _ = io.EOF
