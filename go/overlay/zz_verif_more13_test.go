//go:build verif

package mimetype

import (
	"bytes"
	"fmt"
	"os"
	"os/exec"
	"runtime/debug"
	"strconv"
	"strings"
	"time"

	vjson4 "github.com/gabriel-vasile/mimetype/internal/json"
)

func vfBombInput(shape string, depth int) []byte {
	var open, close string
	switch shape {
	case "arr":
		open, close = "[", "]"
	case "arropen":
		open, close = "[", ""
	case "obj":
		open, close = `{"k":`, "}"
	case "mixed":
		open, close = `[{"k":`, "}]"
	case "padded":
		open, close = "[ \n", " ]"
	case "objpad":
		open, close = "{ \"k\" : ", " }"
	}
	// flat shapes: `depth` repetitions of something that is NOT nesting (the stack must not grow with them either)
	flat := map[string][3]string{
		"flatesc": {`["`, `\n`, `"]`}, "flatkey": {`{"`, `\t`, `":1}`}, "flatuni": {`["`, `\u00e9`, `"]`},
		"flatnum": {`[`, `7`, `]`}, "flatws": {`[`, " ", `]`}, "flatelems": {`[0`, `,0`, `]`},
	}
	if fl, ok := flat[shape]; ok {
		var fb bytes.Buffer
		fb.Grow(depth*len(fl[1]) + 16)
		fb.WriteString(fl[0])
		for i := 0; i < depth; i++ {
			fb.WriteString(fl[1])
		}
		fb.WriteString(fl[2])
		return fb.Bytes()
	}
	var b bytes.Buffer
	b.Grow(depth*(len(open)+len(close)) + 8)
	for i := 0; i < depth; i++ {
		b.WriteString(open)
	}
	if strings.Contains(open, ":") && !strings.HasPrefix(open, "[") {
		b.WriteString("1")
	} else if strings.HasPrefix(open, "[{") {
		b.WriteString("1")
	}
	if close != "" {
		for i := 0; i < depth; i++ {
			b.WriteString(close)
		}
	}
	return b.Bytes()
}

// vfBombChild: run one detection under a small stack limit and report the result.
func vfBombChild() {
	debug.SetMaxStack(8 << 20)
	f := strings.Split(os.Getenv("VERIF_BOMB"), ":")
	depth, _ := strconv.Atoi(f[1])
	lim, _ := strconv.ParseUint(f[2], 10, 32)
	in := vfBombInput(f[0], depth)
	// earlier detections that leave the pooled parser dirty (aborted deep parses)
	Detect(bytes.Repeat([]byte("["), 300))
	Detect([]byte(strings.Repeat(`{"k":`, 300)))
	SetLimit(uint32(lim))
	m := Detect(in)
	fmt.Printf("RESULT %s\n", vfHex([]byte(m.String())))
}

func vfExecMore13(f []string, op string) (string, bool) {
	switch f[0] {
	case "bomb": // bomb shape depth lim
		cmd := exec.Command(os.Args[0])
		cmd.Env = append(os.Environ(), "VERIF_CMD=bombchild", "VERIF_BOMB="+f[1]+":"+f[2]+":"+f[3], "GOMEMLIMIT=4GiB")
		var out bytes.Buffer
		cmd.Stdout = &out
		done := make(chan error, 1)
		cmd.Start()
		go func() { done <- cmd.Wait() }()
		select {
		case err := <-done:
			if err != nil {
				return fmt.Sprintf("%s => died %s", op, strings.ReplaceAll(err.Error(), " ", "_")), true
			}
		case <-time.After(120 * time.Second):
			cmd.Process.Kill()
			return op + " => died timeout", true
		}
		res := "noresult"
		for _, l := range strings.Split(out.String(), "\n") {
			if strings.HasPrefix(l, "RESULT ") {
				res = l[7:]
			}
		}
		return fmt.Sprintf("%s => survived %s", op, res), true
	case "jcap": // jcap cap q hex
		cap, _ := strconv.Atoi(f[1])
		raw, _ := vfExact(vfUnhex(f[3]))
		p, i, t, q := vjson4.VerifParseCap(f[2], raw, cap)
		return fmt.Sprintf("%s => %d %d %d %v", op, p, i, t, q), true
	}
	return vfExecMore14(f, op)
}

func (g *vfGen) runMore13(slice string) bool {
	switch slice {
	case "C16":
		g.genC16()
	default:
		return g.runMore14(slice)
	}
	return true
}

func (g *vfGen) genC16() {
	shapes := []string{"arr", "arropen", "obj", "mixed", "padded", "objpad"}
	// model agreement at small caps: every shape at depths around the cap
	for cap := 1; cap <= 5; cap++ {
		for _, sh := range shapes {
			for d := 1; d <= cap+3; d++ {
				g.emit(vfOp("jcap", cap, "json", vfBombInput(sh, d)))
			}
		}
		for i := 0; i < g.pick(60, 1500); i++ {
			g.emit(vfOp("jcap", cap, []string{"json", "geo"}[g.intn(2)], []byte(g.jdocument())))
		}
	}
	// the real cap: verdicts at cap-1 .. cap+2 (through Parse and through Detect)
	for _, sh := range shapes {
		ds := []int{4096, 4097}
		if g.thorough {
			ds = []int{4095, 4096, 4097, 4098}
		}
		for _, d := range ds {
			in := vfBombInput(sh, d)
			g.emit(vfOp("jparse", "json", in))
			if g.thorough || sh == "arr" || sh == "obj" {
				g.emit(vfOp("jany", in))
			}
		}
	}
	// long flat documents under the same small stack: valid JSON whose length, not its nesting, is large
	for _, sh := range []string{"flatesc", "flatkey", "flatuni", "flatnum", "flatws", "flatelems"} {
		for _, d := range []int{1000, 400000} {
			g.emit(vfOp("bomb", sh, d, 0))
		}
		if g.thorough {
			g.emit(vfOp("bomb", sh, 5000000, 0))
		}
	}
	// bombs under an 8 MiB stack
	depths := []int{10000, 300000}
	if g.thorough {
		depths = append(depths, 2000000, 20000000)
	}
	for _, sh := range shapes {
		for _, d := range depths {
			if (sh == "mixed" || sh == "objpad") && d > 2000000 {
				continue
			}
			g.emit(vfOp("bomb", sh, d, 0))
			if d <= 200000 {
				g.emit(vfOp("bomb", sh, d, 4294967295))
			}
		}
	}
}
