//go:build verif

package mimetype

func (g *vfGen) runMore13(slice string) bool { return false }

func vfExecMore13(f []string, op string) (string, bool) { return "", false }
