//go:build verif

package mimetype

import (
	"fmt"
	"io"
	"strconv"
	"time"
)

type vfFlipReader struct {
	data   []byte
	pos    int
	newLim uint32
	done   bool
}

func (r *vfFlipReader) Read(p []byte) (int, error) {
	if !r.done {
		r.done = true
		SetLimit(r.newLim) // a SetLimit that lands in the middle of the DetectReader call
	}
	if r.pos >= len(r.data) {
		return 0, io.EOF
	}
	n := copy(p, r.data[r.pos:])
	r.pos += n
	return n, nil
}

func vfExecMore14(f []string, op string) (string, bool) {
	switch f[0] {
	case "limflip": // limflip lim newlim hex : the limit changes during DetectReader
		l1, _ := strconv.ParseUint(f[1], 10, 32)
		l2, _ := strconv.ParseUint(f[2], 10, 32)
		data := vfUnhex(f[3])
		SetLimit(uint32(l1))
		a := vfRes(Detect(data))
		SetLimit(uint32(l2))
		b := vfRes(Detect(data))
		SetLimit(uint32(l1))
		m, err := DetectReader(&vfFlipReader{data: data, newLim: uint32(l2)})
		return fmt.Sprintf("%s => %s %s %s %s", op, vfErrClass(err), vfRes(m), a, b), true
	case "matchflip": // matchflip lim newlim hex : the limit changes while the tree is being walked (inside Detect)
		l1, _ := strconv.ParseUint(f[1], 10, 32)
		l2, _ := strconv.ParseUint(f[2], 10, 32)
		data := vfUnhex(f[3])
		if vfBuiltin == nil {
			vfBuiltin = vfSnapshot()
		}
		vfBuiltin.restore()
		defer vfBuiltin.restore()
		SetLimit(uint32(l1))
		a := vfRes(Detect(data))
		SetLimit(uint32(l2))
		b := vfRes(Detect(data))
		SetLimit(uint32(l1))
		// a root-level extension that never matches; it is consulted first and moves the limit
		Extend(func([]byte, uint32) bool { SetLimit(uint32(l2)); return false }, "application/x-verif-flip", ".vflip")
		m := Detect(data)
		return fmt.Sprintf("%s => nil %s %s %s", op, vfRes(m), a, b), true
	case "extflip": // extflip hex : two Extend calls land in the middle of the tree walk of one Detect
		data := vfUnhex(f[1])
		if vfBuiltin == nil {
			vfBuiltin = vfSnapshot()
		}
		vfBuiltin.restore()
		defer vfBuiltin.restore()
		SetLimit(3072)
		r0 := vfChain(Detect(data)) // the tree before any of the calls
		done := make(chan struct{})
		fired := false
		// a root-level extension that never matches; when consulted it lets another goroutine register a rival at
		// the root (matches everything) and a child under text/plain (matches everything), and gives it a moment
		Extend(func([]byte, uint32) bool {
			if !fired {
				fired = true
				go func() {
					Extend(func([]byte, uint32) bool { return true }, "application/x-verif-rival", ".vrv")
					if tp := Lookup("text/plain"); tp != nil {
						tp.Extend(func([]byte, uint32) bool { return true }, "text/x-verif-late-child", ".vlc")
					}
					close(done)
				}()
				select {
				case <-done:
				case <-time.After(150 * time.Millisecond):
				}
			}
			return false
		}, "application/x-verif-trigger", ".vtr")
		got := vfChain(Detect(data))
		select {
		case <-done:
		case <-time.After(5 * time.Second):
		}
		rfinal := vfChain(Detect(data)) // the tree after both calls
		return fmt.Sprintf("%s => %s %s %s", op, got, r0, rfinal), true
	}
	return vfExecMore15(f, op)
}

func (g *vfGen) runMore14(slice string) bool {
	switch slice {
	case "C06":
		g.genC06()
	default:
		return g.runMore15(slice)
	}
	return true
}

func (g *vfGen) genC06() {
	g.genLimFlip()
}

// the limit changes while DetectReader is reading: the result must be the first-match path for
// one of the two limits in force
func (g *vfGen) genLimFlip() {
	docs := [][]byte{
		[]byte("  [1,"), []byte(`{"a":[1,2,3],"b":"text"}`), []byte("a,b\n1,2\n3,4\n5,"), []byte("{\"a\":1}\n{\"b\":2}\n{\"c\":"),
		[]byte(g.jdocument()), []byte(g.jdocument()), g.textBytes(100), append(g.textBytes(40), g.bytes(40)...),
		[]byte("<html><meta charset=latin1>caf\xe9"), []byte("PK\x03\x04aaaaaaaaaaaaaaaaaaaaaaaaaaaaaaaaaaaaaa"),
	}
	for _, d := range docs {
		lims := []int{0, 1, 3, len(d) / 2, len(d) - 1, len(d), len(d) + 1, 3072}
		for _, l1 := range lims {
			for _, l2 := range lims {
				if l1 <= 0 || l1 == l2 || l2 < 0 {
					continue
				}
				g.emit(vfOp("limflip", l1, l2, d))
				g.emit(vfOp("matchflip", l1, l2, d))
			}
		}
	}
	// Extend calls that land in the middle of a walk: the answer is the answer for the tree before or after them
	for _, d := range [][]byte{[]byte("plain text"), []byte("{\"a\":1}"), []byte("a,b\n1,2\n3,4\n"), {}, []byte("<html><body>x"), []byte("%PDF-1.4")} {
		g.emit(vfOp("extflip", d))
	}
	// documents longer than the first limit, the limit raised beyond their length (and back) during the walk
	long := []byte("{\"items\":[")
	for i := 0; i < 700; i++ {
		long = append(long, []byte(fmt.Sprintf("{\"id\":%d},", i))...)
	}
	long = append(long, []byte("{\"id\":0}]}")...)
	csvLong := []byte{}
	for i := 0; i < 500; i++ {
		csvLong = append(csvLong, []byte(fmt.Sprintf("%d,name-%d,value\n", i, i))...)
	}
	for _, d := range [][]byte{long, csvLong, append([]byte("\n  "), long...)} {
		for _, p := range [][2]int{{3072, len(d) + 100}, {3072, 0}, {100, 3072}, {len(d) + 100, 3072}, {0, 3072}, {1000, 1001}, {3072, 3071}} {
			g.emit(vfOp("limflip", p[0], p[1], d))
			g.emit(vfOp("matchflip", p[0], p[1], d))
		}
	}
}
