//go:build verif

package mimetype

func (g *vfGen) runMore14(slice string) bool { return false }

func vfExecMore14(f []string, op string) (string, bool) { return "", false }
