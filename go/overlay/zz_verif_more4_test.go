//go:build verif

package mimetype

func (g *vfGen) runMore4(slice string) bool { return false }

func vfExecMore4(f []string, op string) (string, bool) { return "", false }
