//go:build verif

package mimetype

import (
	"bytes"
	"encoding/hex"
	"fmt"
	"strconv"
)

func vfExecMore4(f []string, op string) (string, bool) {
	switch f[0] {
	case "mono": // mono hex L1 L2   (0 = unlimited)
		data := vfUnhex(f[1])
		l1, _ := strconv.ParseUint(f[2], 10, 32)
		l2, _ := strconv.ParseUint(f[3], 10, 32)
		SetLimit(uint32(l1))
		a := Detect(data)
		SetLimit(uint32(l2))
		b := Detect(data)
		return fmt.Sprintf("%s => %s %s", op, vfChain(a), vfChain(b)), true
	}
	return vfExecMore5(f, op)
}

func (g *vfGen) runMore4(slice string) bool {
	switch slice {
	case "C17":
		g.genC17()
	default:
		return g.runMore5(slice)
	}
	return true
}

// literal pool: every byte-string literal of internal/magic and every prefix of it
func (g *vfGen) literalPool() [][]byte {
	fx := vfLoadFacts()
	var pool [][]byte
	for _, n := range vfDetNames() {
		for _, s := range fx.Signatures[n] {
			b, _ := hex.DecodeString(s)
			pool = append(pool, b)
		}
	}
	return pool
}

func (g *vfGen) genC17() {
	pool := g.literalPool()
	var heads [][]byte
	for _, c := range vfCorpus() {
		if len(c) > 4096 {
			c = c[:4096]
		}
		heads = append(heads, c)
	}
	// also the bare signatures themselves
	for _, p := range pool {
		if len(p) >= 2 {
			heads = append(heads, p)
		}
	}
	// directed: the literals of the root-level check that accepts the head (and of its
	// neighbours in the same source file are in the pool) appended whole and cut
	fx := vfLoadFacts()
	names := vfDetNames()
	for _, h := range heads {
		var own [][]byte
		for _, n := range names {
			d := vfDetectorByName(n)
			if d == nil || len(fx.Signatures[n]) == 0 || vfSafeDet(d, h, 0) != "T" {
				continue
			}
			for _, s := range fx.Signatures[n] {
				b, _ := hex.DecodeString(s)
				own = append(own, b)
			}
		}
		if len(own) > 24 {
			g.rng.Shuffle(len(own), func(i, j int) { own[i], own[j] = own[j], own[i] })
			own = own[:24]
		}
		for _, lit := range own {
			for _, gap := range []int{0, g.intn(40), 600} {
				data := append(append(append([]byte{}, h...), make([]byte, gap)...), lit...)
				data = append(data, 'x', 'y')
				g.emit(vfOp("mono", data, len(h), 0))
				g.emit(vfOp("mono", data, len(h), len(data)))
			}
		}
	}
	reps := g.pick(6, 60)
	for _, h := range heads {
		for r := 0; r < reps; r++ {
			var suf []byte
			switch g.intn(5) {
			case 0:
				suf = g.bytes(g.intn(64))
			case 1:
				lit := pool[g.intn(len(pool))]
				k := g.intn(len(lit) + 1)
				suf = append(g.bytes(g.intn(8)), lit[:k]...)
			case 2:
				lit := pool[g.intn(len(pool))]
				suf = append(append(g.bytes(g.intn(600)), lit...), g.bytes(g.intn(40))...)
			case 3:
				suf = make([]byte, g.intn(700))
			default:
				suf = g.textBytes(g.intn(200))
			}
			data := append(append([]byte{}, h...), suf...)
			// L1: somewhere inside or at the end of the original header; L2 larger, or unlimited
			l1 := len(h)
			if len(h) > 1 && g.intn(3) == 0 {
				l1 = 1 + g.intn(len(h))
			}
			var l2 int
			switch g.intn(4) {
			case 0:
				l2 = 0
			case 1:
				l2 = l1 + 1
			case 2:
				l2 = l1 + 1 + g.intn(len(suf)+2)
			default:
				l2 = len(data) + g.intn(3)
			}
			if l1 == 0 {
				continue
			}
			g.emit(vfOp("mono", data, l1, l2))
		}
	}
	// every pair of small limits on the first bytes of every sample: formats that share a prefix hand a file over
	// from one check to another as the header grows (ttf -> x-msaccess is the documented case), and between the
	// point where the first one lets go and the point where the second one takes hold there must be no gap
	maxL := g.pick(24, 48)
	// length fields that point beyond the header: Chrome extensions (Cr24, version, public key length, signature length,
	// then the zip), with the zip where the header says, somewhere else, or missing
	for _, pk := range []int{40, 3000, 4000, 70000} {
		for _, tail := range [][]byte{[]byte("PK\x03\x04rest of the archive"), []byte("not a zip at all, just text"), {}} {
			for _, ver := range []byte{2, 3} {
				h := []byte{'C', 'r', '2', '4', ver, 0, 0, 0, byte(pk), byte(pk >> 8), byte(pk >> 16), 0, 100, 0, 0, 0}
				data := append(append(append([]byte{}, h...), g.bytes(pk+100)...), tail...)
				for _, l1 := range []int{16, 64, 3072, pk + 116, pk + 118} {
					for _, l2 := range []int{0, l1 + 1, pk + 120, len(data), len(data) + 1} {
						if l1 > 0 && (l2 == 0 || l2 > l1) {
							g.emit(vfOp("mono", data, l1, l2))
						}
					}
				}
			}
		}
	}
	// a table whose header declares fewer bytes than the file has (sector padding, appended memo data)
	{
		dbf := make([]byte, 600)
		copy(dbf, []byte{0x03, 0x7B, 7, 21, 2, 0, 0, 0, 65, 0, 10, 0})
		copy(dbf[32:], "NAME")
		dbf[64] = 0x0D
		for _, l1 := range []int{12, 32, 68, 85, 86, 87} {
			for _, l2 := range []int{0, 88, 200, 600, 601} {
				g.emit(vfOp("mono", dbf, l1, l2))
			}
		}
	}
	// the formats tree.go documents as sharing their first bytes with another one
	heads = append(heads,
		append([]byte("\x00\x01\x00\x00Standard Jet DB\x00"), make([]byte, 40)...),
		append([]byte("\x00\x01\x00\x00Standard ACE DB\x00"), make([]byte, 40)...),
		append([]byte("\x00\x01\x00\x00Standard Jet"), g.bytes(40)...),
		append([]byte("\x00\x01\x00\x00S"), g.bytes(40)...),
		append([]byte("\x00\x01\x00\x00\x00\x0c\x00\x80\x00\x03\x00\x40"), g.bytes(40)...))
	// signatures that sit at an offset, present only in part (the first k bytes right, then something else), with
	// every pair of limits around them: a header cut inside the signature is not yet an identification
	for _, os := range []struct {
		off int
		sig string
	}{{20, "GPAT"}, {20, "GIMP"}, {60, "BOOKMOBI"}, {4, "Standard Jet DB"}, {4, "Standard ACE DB"}, {257, "ustar"}, {4, "ftyp"}, {8, "WEBP"}, {8, "AVI LIST"}, {36, "acsp"}} {
		for k := 1; k < len(os.sig); k++ {
			for _, fill := range []byte{0, ' ', 'a'} {
				h := bytes.Repeat([]byte{fill}, os.off)
				if os.off == 4 && os.sig[0] == 'S' {
					copy(h, "\x00\x01\x00\x00")
				}
				h = append(append(h, os.sig[:k]...), "XYZWxyzw0123456789"...)
				for l1 := os.off; l1 <= os.off+len(os.sig)+1; l1++ {
					for _, l2 := range []int{l1 + 1, l1 + 2, os.off + len(os.sig), len(h), 0} {
						if l1 > 0 && (l2 == 0 || l2 > l1) {
							g.emit(vfOp("mono", h, l1, l2))
						}
					}
				}
			}
		}
	}
	for _, h := range heads {
		if len(h) < 3 {
			continue
		}
		n := len(h)
		if n > maxL {
			n = maxL
		}
		for l1 := 1; l1 < n; l1++ {
			for l2 := l1 + 1; l2 <= n; l2++ {
				g.emit(vfOp("mono", h[:n], l1, l2))
			}
		}
	}
}
