//go:build verif

package mimetype

import (
	"fmt"
	"strconv"
	"strings"
)

func (g *vfGen) runMore16(slice string) bool { return g.runMore17(slice) }

// resext hex lim : calling Extend on a detection result (and on its ancestors) registers nothing:
// the tree is unchanged and the same input is classified as before
func vfExecMore16(f []string, op string) (string, bool) {
	switch f[0] {
	case "resext", "resext1":
		if vfBuiltin == nil {
			vfBuiltin = vfSnapshot()
		}
		vfBuiltin.restore()
		defer vfBuiltin.restore()
		data := vfUnhex(f[1])
		lim64, _ := strconv.ParseUint(f[2], 10, 32)
		SetLimit(uint32(lim64))
		before := vfDumpTree()
		d := Detect(data)
		c1 := vfChain(d)
		always := func([]byte, uint32) bool { return true }
		k := 0
		for p := d; p != nil; p = p.Parent() {
			p.Extend(always, fmt.Sprintf("application/x-verif-foreign-%d", k), ".vf")
			k++
			if f[0] == "resext1" { // the returned value only, not its ancestors
				break
			}
		}
		after := vfDumpTree()
		d2 := Detect(data)
		c2 := vfChain(d2)
		return fmt.Sprintf("%s => %s %s %s", op, c1, c2, vfBit(before == after)), true
	case "trace": // trace hex lim : the detectors Detect consults, in order, with their verdicts
		data := vfUnhex(f[1])
		lim64, _ := strconv.ParseUint(f[2], 10, 32)
		lim := uint32(lim64)
		SetLimit(lim)
		mu.Lock()
		nodes := root.flatten()
		saved := make([]func([]byte, uint32) bool, len(nodes))
		var log []string
		for i, n := range nodes {
			saved[i] = n.detector
			i, d := i, n.detector
			n.detector = func(raw []byte, l uint32) bool {
				v := d(raw, l)
				log = append(log, fmt.Sprintf("%d:%s", i, vfBit(v)))
				return v
			}
		}
		mu.Unlock()
		restore := func() {
			mu.Lock()
			for i, n := range nodes {
				n.detector = saved[i]
			}
			mu.Unlock()
		}
		res := ""
		func() {
			defer restore()
			defer func() {
				if r := recover(); r != nil {
					res = "PANIC"
				}
			}()
			in, _ := vfExact(data)
			res = vfChain(Detect(in))
		}()
		hdr, _ := vfExact(vfHeader(data, lim))
		var vb strings.Builder
		for _, n := range nodes {
			vb.WriteString(vfSafeDet(n.detector, hdr, lim)[:1])
		}
		lg := "~"
		if len(log) > 0 {
			lg = strings.Join(log, ",")
		}
		return fmt.Sprintf("%s => %s %s %s", op, vb.String(), lg, res), true
	}
	return vfExecMore17(f, op)
}

func (g *vfGen) genTrace() {
	ins := g.overlayInputs()
	for k, in := range ins {
		if k%3 == 0 || len(in) < 64 {
			g.emit(vfOp("trace", in, []uint32{0, 3072, uint32(1 + g.intn(len(in)+1))}[g.intn(3)]))
		}
	}
	for _, c := range vfCorpus() {
		if len(c) <= 8192 {
			g.emit(vfOp("trace", c, 0))
		}
	}
}

func (g *vfGen) genResExt() {
	for _, c := range vfCorpus() {
		if len(c) > 4096 {
			c = c[:4096]
		}
		g.emit(vfOp("resext", c, []uint32{0, 3072}[g.intn(2)]))
		g.emit(vfOp("resext1", c, []uint32{0, 3072}[g.intn(2)]))
	}
	for _, s := range []string{"%PDF-1.7", "plain text", "{\"a\":1}", "<html><body>", "PK\x03\x04", "", "\x00\x01",
		"<html><head><meta charset=koi8-r></head>", "<?xml version=\"1.0\" encoding=\"iso-8859-2\"?><a/>", "caf\xe9 au lait", "<!DOCTYPE html><meta charset=\"x y\">"} {
		g.emit(vfOp("resext", []byte(s), 0))
		g.emit(vfOp("resext1", []byte(s), 0))
	}
}
