//go:build verif

package mimetype

import (
	"fmt"
	"strconv"
)

func (g *vfGen) runMore16(slice string) bool { return false }

// resext hex lim : calling Extend on a detection result (and on its ancestors) registers nothing:
// the tree is unchanged and the same input is classified as before
func vfExecMore16(f []string, op string) (string, bool) {
	switch f[0] {
	case "resext":
		if vfBuiltin == nil {
			vfBuiltin = vfSnapshot()
		}
		vfBuiltin.restore()
		defer vfBuiltin.restore()
		data := vfUnhex(f[1])
		lim64, _ := strconv.ParseUint(f[2], 10, 32)
		SetLimit(uint32(lim64))
		before := vfDumpTree()
		d := Detect(data)
		c1 := vfChain(d)
		always := func([]byte, uint32) bool { return true }
		k := 0
		for p := d; p != nil; p = p.Parent() {
			p.Extend(always, fmt.Sprintf("application/x-verif-foreign-%d", k), ".vf")
			k++
		}
		after := vfDumpTree()
		d2 := Detect(data)
		c2 := vfChain(d2)
		return fmt.Sprintf("%s => %s %s %s", op, c1, c2, vfBit(before == after)), true
	}
	return "", false
}

func (g *vfGen) genResExt() {
	for _, c := range vfCorpus() {
		if len(c) > 4096 {
			c = c[:4096]
		}
		g.emit(vfOp("resext", c, []uint32{0, 3072}[g.intn(2)]))
	}
	for _, s := range []string{"%PDF-1.7", "plain text", "{\"a\":1}", "<html><body>", "PK\x03\x04", "", "\x00\x01"} {
		g.emit(vfOp("resext", []byte(s), 0))
	}
}
