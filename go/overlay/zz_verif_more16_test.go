//go:build verif

package mimetype

func (g *vfGen) runMore16(slice string) bool { return false }

func vfExecMore16(f []string, op string) (string, bool) { return "", false }
