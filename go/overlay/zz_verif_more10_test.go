//go:build verif

package mimetype

import (
	"fmt"
	"strconv"
	"strings"
)

func vfExecMore10(f []string, op string) (string, bool) {
	switch f[0] {
	case "decl": // decl kind labelhex hex lim : Detect on a document that declares `label`
		data := vfUnhex(f[3])
		lim64, _ := strconv.ParseUint(f[4], 10, 32)
		SetLimit(uint32(lim64))
		in, _ := vfExact(data)
		m := Detect(in)
		return fmt.Sprintf("%s => %s", op, vfRes(m)), true
	}
	return vfExecMore11(f, op)
}

func (g *vfGen) runMore10(slice string) bool {
	switch slice {
	case "C12":
		g.genC12()
	default:
		return g.runMore11(slice)
	}
	return true
}

func (g *vfGen) label() string {
	fixed := []string{"utf-8", "UTF-8", "ISO-8859-1", "windows-1252", "Shift_JIS", "EUC-KR", "koi8-r", "utf-16", "UTF-16LE", "utf-16be", "us-ascii", "x-user-defined", "GBK", "big5", "IBM866"}
	if g.intn(2) == 0 {
		return fixed[g.intn(len(fixed))]
	}
	const tok = "abcdefghijklmnopqrstuvwxyzABCDEFGHIJKLMNOPQRSTUVWXYZ0123456789-_.:+!#$^`|~"
	n := 1 + g.intn(20)
	b := make([]byte, n)
	for i := range b {
		b[i] = tok[g.intn(len(tok))]
	}
	return string(b)
}

func vfCase(g *vfGen, s string) string {
	b := []byte(s)
	for i := range b {
		if g.intn(2) == 0 && b[i] >= 'a' && b[i] <= 'z' {
			b[i] -= 32
		}
	}
	return string(b)
}

func (g *vfGen) genC12() {
	pro := []string{"", "<!DOCTYPE html>", "<!doctype html>\n<html><head>", "<html>\n<head>\n", "<!-- <meta charset=fake-one> -->\n<html>",
		"<html><head><title><meta charset=fake-two></title>", "<html><script>var a='<meta charset=fake3>';</script>",
		"<html><head><meta name=\"viewport\" content=\"width=device-width\">", "<html><head><meta name=description content=\"charset is cool\">",
		// constructs that HTML treats as bogus comments ending at the first `>` (a CDATA section outside foreign content,
		// a processing instruction, `<!x`, an end tag without a name)
		"<html><head><![CDATA[ 2>1 ]>", "<html><head><![CDATA[ x ]]>", "<html><?php echo 1 ?>", "<html><!x y><!>", "<html></ x><//>",
		"<html><head><![CDATA[<meta charset=fake7>]]>", "<!DOCTYPE html><![CDATA[ a > b",
		// character references in attribute values in front of the declaration (named with and without `;`, numeric,
		// malformed, followed by `=`: attribute mode leaves those alone)
		"<html><head><meta name=\"a&amp;b\" content=\"x &notit; y &not=z &#x26;#38; &#0; &#128; &#xD800; &bogus; &\">",
		"<html><a href=\"?a=1&copy=2&amp;lt=3&lt\" title='&#60;meta charset=fake5&#62;'>", "<html><body data-x=&quot;charset=fake6&quot;>"}
	n := g.pick(1500, 40000)
	for i := 0; i < n; i++ {
		l := g.label()
		p := pro[g.intn(len(pro))]
		if !strings.Contains(strings.ToLower(p), "<html") && !strings.Contains(strings.ToLower(p), "<!doctype html") {
			p = "<html>" + p
		}
		sp := []string{"", " ", "  ", "\n", "\t"}
		ws := func() string { return sp[g.intn(len(sp))] }
		q := []string{"\"", "'", ""}[g.intn(3)]
		lw := l // the label as written in the document
		if i%6 == 5 && !strings.ContainsAny(l, "&;#") {
			// the same label written with character references: what the document declares is the decoded label
			var sb strings.Builder
			for _, c := range []byte(l) {
				switch g.intn(4) {
				case 0:
					fmt.Fprintf(&sb, "&#%d;", c)
				case 1:
					fmt.Fprintf(&sb, "&#x%X;", c)
				default:
					sb.WriteByte(c)
				}
			}
			lw = sb.String()
		}
		var decl, kind string
		switch g.intn(5) {
		case 0, 1:
			kind = "meta"
			decl = fmt.Sprintf("<%s %s=%s%s%s%s>", vfCase(g, "meta"), vfCase(g, "charset"), q, lw, q, []string{"", " /", "/"}[g.intn(3)])
			if q == "" && strings.HasSuffix(decl, "/>") && !strings.HasSuffix(decl, " />") {
				decl = fmt.Sprintf("<meta charset=%s >", lw)
			}
		case 2:
			kind = "pragma"
			decl = fmt.Sprintf("<%s %s=\"%s\" %s=\"text/html;%scharset%s=%s%s\">", vfCase(g, "meta"), vfCase(g, "http-equiv"), vfCase(g, "Content-Type"), vfCase(g, "content"), ws(), ws(), ws(), lw)
		case 3:
			kind = "pragma"
			decl = fmt.Sprintf("<meta content='text/html; charset=\"%s\"' http-equiv='content-type'>", lw)
		default:
			kind = "pragma"
			decl = fmt.Sprintf("<meta content=\"text/html; charset='%s'; x=y\" data-x=1 http-equiv=content-type>", lw)
		}
		if i%9 == 0 {
			// a long prologue: the declaration sits beyond byte 1024 but inside the default limit
			p = "<html><!-- " + strings.Repeat("long comment ", 70+g.intn(60)) + "--><script>var s='<meta charset=fake4>';" + strings.Repeat("x=1;", 40) + "</script>"
		}
		doc := p + decl + "</head><body>caf\xe9 text</body></html>"
		g.emit(vfOp("decl", kind, []byte(l), []byte(doc), 0))
		g.emit(vfOp("cs", "html", []byte(doc)))
		if i%4 == 0 {
			g.emit(vfOp("decl", kind, []byte(l), []byte(doc), len(p)+len(decl)+1))
			g.emit(vfOp("decl", kind, []byte(l), append([]byte{0xEF, 0xBB, 0xBF}, doc...), 0))
		}
		// XML
		qx := []string{"\"", "'"}[g.intn(2)]
		sa := []string{"", " standalone=\"yes\"", " standalone='no'"}[g.intn(3)]
		// XML 1.0 allows any white space (S = #x20 | #x9 | #xD | #xA) between the pseudo-attributes
		sep := []string{" ", " ", "\t", "\n", "\r\n", "  ", "\n  ", " \t"}[g.intn(8)]
		xd := fmt.Sprintf("<?xml version=%s1.0%s%sencoding=%s%s%s%s?>", qx, qx, sep, qx, l, qx, sa)
		lead := []string{"", "\n", "  ", "\r\n\t"}[g.intn(4)]
		xdoc := lead + xd + "\n<root><a>caf\xe9</a></root>"
		g.emit(vfOp("decl", "xml", []byte(l), []byte(xdoc), 0))
		g.emit(vfOp("cs", "xml", []byte(xdoc)))
		if i%4 == 0 {
			g.emit(vfOp("decl", "xml", []byte(l), []byte(xdoc), len(lead)+len(xd)+2))
		}
	}
	// XML labels outside ASCII: upper-case letters of other scripts, runes whose lower case is ASCII or longer than
	// they are, title case, invalid UTF-8 (lower-cased by strings.ToLower: one U+FFFD per invalid byte)
	for _, l := range append(append([]string{}, vfLetterLabels...), "\u00c9\u00c0", "\u03a3\u0391\u03a3", "\u212aOI8-R", "\u0130SO-8859-1", "\xff", "\u023a\u023e", "\u01c5", "\U00010400",
		"A\xffB", "\xed\xa0\x80", "\xc3", "CAF\u00c9", "\u1e9e", "x\u00a0Y") {
		for _, q := range []string{"\"", "'"} {
			xdoc := "<?xml version=" + q + "1.0" + q + " encoding=" + q + l + q + "?><r/>"
			g.emit(vfOp("cs", "xml", []byte(xdoc)))
			g.emit(vfOp("walk", []byte(xdoc), 0))
		}
	}
	// declarations behind a prologue longer than the default limit: examined with no limit or a larger one
	for i := 0; i < g.pick(30, 600); i++ {
		l := g.label()
		pad := strings.Repeat("long comment ", 260+g.intn(200))
		hdoc := "<html><!-- " + pad + "--><head><meta charset=\"" + l + "\"></head><body>caf\xe9</body></html>"
		pdoc := "<html><head><script>var s='<meta charset=fake5>';" + strings.Repeat("x=1;", 900) + "</script><meta http-equiv=\"Content-Type\" content=\"text/html; charset=" + l + "\"></head>caf\xe9"
		for _, lim := range []int{0, 16384} {
			g.emit(vfOp("decl", "meta", []byte(l), []byte(hdoc), lim))
			g.emit(vfOp("decl", "pragma", []byte(l), []byte(pdoc), lim))
		}
		g.emit(vfOp("walk", []byte(hdoc), 0))
		g.emit(vfOp("walk", []byte(hdoc), 3072))
		g.emit(vfOp("walk", []byte(pdoc), 8000))
	}
	// directed: duplicated attributes (only the first counts), several metas, documents whose first XML token is
	// not a declaration, declarations that end right after `encoding=`
	for i := 0; i < g.pick(60, 2000); i++ {
		l, l2 := g.label(), g.label()
		docs := []string{
			"<html><head><meta charset=" + l + " charset=" + l2 + "></head>caf\xe9",
			"<html><head><meta charset=\"" + l + "\" CHARSET='" + l2 + "' charset=x></head>caf\xe9",
			"<html><head><meta http-equiv=refresh http-equiv=content-type content=\"text/html; charset=" + l + "\"></head>caf\xe9",
			"<html><head><meta http-equiv=content-type content=\"text/html\" content=\"text/html; charset=" + l + "\"></head>caf\xe9",
			"<html><head><meta content=\"text/html; charset=" + l + "\" http-equiv=content-type http-equiv=refresh></head>caf\xe9",
			"<html><head><meta name=a><meta charset=" + l + "><meta charset=" + l2 + "></head>caf\xe9",
			"<html><head><meta http-equiv=content-type content=\"text/html; charset=" + l + "\" charset=" + l2 + "></head>caf\xe9",
			"<html><head><meta charset=\"\"><meta charset=" + l + "></head>caf\xe9",
			"<html><head><meta name=a name=b charset=" + l + "></head>caf\xe9",
			"<html><head><meta data-x=1 DATA-X=2 data-x=3 charset='" + l + "'></head>caf\xe9",
			"<html><head><meta http-equiv=content-type http-equiv=x content=\"text/html; charset=" + l + "\"></head>caf\xe9",
			"<html><head><meta name=a name=b content=\"text/html; charset=" + l + "\" http-equiv=content-type></head>caf\xe9",
		}
		for _, d := range docs {
			g.emit(vfOp("cs", "html", []byte(d)))
			g.emit(vfOp("walk", []byte(d), 0))
		}
		xdocs := []string{
			"<root encoding=\"" + l + "\">caf\xe9</root>", "<!-- c --><?xml version=\"1.0\" encoding=\"" + l + "\"?><a/>",
			"<?xml version=\"1.0\" encoding=?><a/>", "<?xml version=\"1.0\" encoding=", "<?xml encoding=\"" + l + "\"", "<?xml version=\"1.0\" encoding=\"" + l + "\"?",
			"<?xml-stylesheet encoding=\"" + l + "\"?><a/>", "<?XML version=\"1.0\" encoding=\"" + l + "\"?><a/>", "text <?xml version=\"1.0\" encoding=\"" + l + "\"?><a/>",
			"<?xml version=\"1.0\" encoding=\"" + l + "\" encoding='" + l2 + "'?><a/>", "<?xml version=\"1.0\" encoding=" + l + "?><a/>",
		}
		for _, d := range xdocs {
			g.emit(vfOp("cs", "xml", []byte(d)))
			g.emit(vfOp("walk", []byte(d), 0))
		}
	}
	// extraction helpers on raw strings
	for i := 0; i < g.pick(500, 20000); i++ {
		l := g.label()
		forms := []string{"text/html; charset=" + l, "charset = \"" + l + "\"", "charsetx; charset=" + l + " ;", "charset", "charset=", "charset='" + l, "a charset b charset=" + l,
			"version=\"1.0\" encoding=\"" + l + "\"", "encoding='" + l + "'", "encoding=" + l, "encoding=\"" + l, "xencoding='" + l + "' encoding=\"z\""}
		f := forms[g.intn(len(forms))]
		g.emit(vfOp("meta", []byte(f)))
		g.emit(vfOp("xmlenc", []byte(f)))
	}
}
