//go:build verif

package mimetype

import "fmt"

func vfExecMore8(f []string, op string) (string, bool) { return vfExecMore9(f, op) }

func (g *vfGen) runMore8(slice string) bool {
	switch slice {
	case "C11":
		g.genC11()
	default:
		return g.runMore9(slice)
	}
	return true
}

func (g *vfGen) genC11() {
	// real text in several scripts, cut at every length, through FromPlain and through Detect
	texts := []string{
		"caf\u00e9 na\u00efve r\u00e9sum\u00e9", "\u0417\u0434\u0440\u0430\u0432\u0441\u0442\u0432\u0443\u0439\u0442\u0435 \u043c\u0438\u0440",
		"\u65e5\u672c\u8a9e\u306e\u30c6\u30ad\u30b9\u30c8 abc", "emoji \U0001F600 \U0001F680 end", "plain ascii only\n\ttabbed\r\n",
		"mixed \u00e9\u20ac\U00010348 x", "Wait\u0085next", "\u00a0nbsp", "a\ufffdb", "\ufffd", "repl \ufffd\ufffd end", "\uffff\ufffe x", "\ud7ff\ue000",
	}
	for _, t := range texts {
		b := []byte(t)
		for k := 0; k <= len(b); k++ {
			g.emit(vfOp("cs", "plain", b[:k]))
			if k > 0 {
				g.emit(vfOp("walk", b, k))
			}
		}
	}
	// latin-1 / cp1252 samples and damaged UTF-8
	samples := [][]byte{
		[]byte("caf\xe9"), []byte("na\xefve \x93quoted\x94"), []byte("Wait\x85"), []byte("\xe9\xff"), []byte("ok \xc3"), []byte("ok \xe2\x82"),
		[]byte("bad \xc0\xaf"), []byte("sur \xed\xa0\x80"), []byte("big \xf4\x90\x80\x80"), []byte("\xf0\x9f\x98"), []byte("a\x1bb"), []byte("a\x7fb"),
	}
	for _, s := range samples {
		g.emit(vfOp("cs", "plain", s))
		g.emit(vfOp("walk", s, 0))
	}
	// XML / HTML without a declared encoding: the sniffing rules apply
	for _, body := range []string{"caf\xe9", "na\xefve \x93q\x94", "caf\xc3\xa9", "plain", "\xe9\xff", "Wait\x85"} {
		for _, pro := range []string{"<?xml version=\"1.0\"?>", "<?xml version='1.0' standalone='yes'?>", "  <?xml version=\"1.0\" ?>"} {
			d := []byte(pro + "<r>" + body + "</r>")
			g.emit(vfOp("cs", "xml", d))
			g.emit(vfOp("walk", d, 0))
		}
		h := []byte("<html><head><title>t</title></head><body>" + body + "</body></html>")
		g.emit(vfOp("cs", "html", h))
		g.emit(vfOp("walk", h, 0))
	}
	// every BOM with tails
	for _, bom := range [][]byte{{0xEF, 0xBB, 0xBF}, {0, 0, 0xFE, 0xFF}, {0xFF, 0xFE, 0, 0}, {0xFE, 0xFF}, {0xFF, 0xFE}} {
		for _, tail := range [][]byte{nil, []byte("a"), {0}, {0xFF}, {0, 0}, []byte("caf\xe9")} {
			g.emit(vfOp("cs", "plain", append(append([]byte{}, bom...), tail...)))
		}
	}
	// texts longer than the default limit whose first non-ASCII / non-UTF-8 / C1 byte lies beyond byte 3072,
	// examined with no limit, a larger limit, and limits around that byte
	for k := 0; k < g.pick(12, 300); k++ {
		n := 3300 + g.intn(5000)
		txt := g.textBytes(n)
		pos := 3073 + g.intn(n-3100)
		for _, late := range [][]byte{{0x85}, {0xE9}, {0xFF}, {0xC3, 0xA9}, {0xE2, 0x82, 0xAC}, {0x93, 'q', 0x94}, {0xC3}} {
			c := append(append(append([]byte{}, txt[:pos]...), late...), txt[pos:]...)
			for _, lim := range []int{0, len(c) + 1, 8192, pos + len(late), pos, 3072} {
				g.emit(vfOp("walk", c, lim))
			}
		}
	}
	// extensions whose type is one of the three text types (under the root, under text/plain, under html): their
	// results carry the charset exactly as the built-in nodes' results do
	for _, parent := range []string{"r", "0", "3"} {
		for _, mt := range []string{"text/plain", "text/html", "text/xml"} {
			for _, pred := range []string{"always", "prefix-" + vfHex([]byte("log:")), "contains-" + vfHex([]byte("caf"))} {
				sc := fmt.Sprintf("%s:%s:%s:%s:~", parent, pred, vfHex([]byte(mt)), vfHex([]byte(".vt")))
				for _, in := range [][]byte{[]byte("log: plain ascii"), []byte("log: caf\xc3\xa9"), []byte("log: caf\xe9"), []byte("log: Wait\x85 caf"), {}, []byte("caf\xe9 <html>")} {
					g.emit(vfOp("xwalk", sc, in, 0))
				}
			}
		}
	}
	// random byte-class strings beyond the exhaustive length
	classes := []byte{'a', ' ', '\n', 0x1B, 0x7F, 0x85, 0x90, 0xA0, 0xBF, 0xBD, 0xBE, 0xC2, 0xC3, 0xDF, 0xE0, 0xE2, 0xED, 0xEF, 0xF0, 0xF4, 0xF5, 0xFF, 0xC0, 0x80}
	// every three-byte sequence with lead EF (U+F000..U+FFFF incl. U+FFFD, U+FFFE, U+FFFF) in a little text
	for c1 := 0x80; c1 <= 0xBF; c1++ {
		for _, c2 := range []byte{0x80, 0xBB, 0xBC, 0xBD, 0xBE, 0xBF} {
			g.emit(vfOp("cs", "plain", []byte{'a', 0xEF, byte(c1), c2, 'b'}))
		}
	}
	for i := 0; i < g.pick(20000, 600000); i++ {
		n := 1 + g.intn(10)
		b := make([]byte, n)
		for j := range b {
			b[j] = classes[g.intn(len(classes))]
		}
		g.emit(vfOp("cs", "plain", b))
	}
}
