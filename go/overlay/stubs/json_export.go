//go:build verif

package json

// Fallback exports (see stubs/charset_export.go): only the exported API of the package is used.
func VerifParseCap(queryType string, raw []byte, cap int) (parsed, inspected, firstToken int, querySatisfied bool) {
	return Parse(queryType, raw)
}

func VerifParseFresh(queryType string, raw []byte) (parsed, inspected, firstToken int, querySatisfied bool) {
	return Parse(queryType, raw)
}
