//go:build verif

package charset

// Fallback exports, used only when the regular ones no longer compile against the current source
// (an unexported function was renamed or removed): the operations that need them answer with a
// marker, every other operation of the harness keeps running so that the search for a failing
// input can go on.
func VerifFromMetaElement(s string) string { return "\x00unavailable" }
func VerifXMLEncoding(s string) string     { return "\x00unavailable" }
