//go:build verif

package magic

// Fallback exports (see stubs/charset_export.go).
func VerifDropLastLine(b []byte, l uint32) []byte      { return []byte("\x00unavailable") }
func VerifScanLine(b []byte) ([]byte, []byte)          { return nil, nil }
func VerifTarParseOctal(b []byte) int64                { return -2 }
func VerifTarChksum(b []byte) (int64, int64)           { return -2, -2 }
func VerifZipContains(raw, sig []byte, mso bool) bool  { return false }
func VerifMatchOleClsid(in, clsid []byte) bool         { return false }
