//go:build verif

package mimetype

import (
	"bytes"
	"fmt"
	"strconv"
	"strings"
)

// heap ops: the pointer structure mime.go builds (newMIME, Extend, match/cloneHierarchy, lookup,
// Parent) on a private tree, observed node by node.  Every *MIME is given an id at its first
// observation; observations are made in allocation order (the harness knows it: it makes the
// calls), so the ids are the addresses of the heap model (Model/Heap.lean) and the whole heap
// — name, parent pointer, children pointers of every node — is compared after every operation.

type vfHeapReg struct {
	ids   map[*MIME]int
	order []*MIME
}

func (r *vfHeapReg) reg(p *MIME) {
	if p == nil {
		return
	}
	if _, ok := r.ids[p]; !ok {
		r.ids[p] = len(r.order)
		r.order = append(r.order, p)
	}
}

func (r *vfHeapReg) id(p *MIME) string {
	if p == nil {
		return "-"
	}
	if i, ok := r.ids[p]; ok {
		return strconv.Itoa(i)
	}
	return "?"
}

func (r *vfHeapReg) dump(hexNames bool) string {
	var sb strings.Builder
	for i, p := range r.order {
		if i > 0 {
			sb.WriteByte(',')
		}
		ks := make([]string, len(p.children))
		for j, c := range p.children {
			ks[j] = r.id(c)
		}
		name := strings.ReplaceAll(p.mime, " ", "_")
		if hexNames {
			name = vfHex([]byte(p.mime))
		}
		sb.WriteString(name + "|" + r.id(p.parent) + "|" + strings.Join(ks, "."))
	}
	return sb.String()
}

func vfHeapName(tag byte) string {
	if tag == 'T' {
		return "text/plain"
	}
	return "x/" + string(tag)
}

func vfHeapDet(tag byte) func([]byte, uint32) bool {
	return func(raw []byte, _ uint32) bool { return bytes.IndexByte(raw, tag) >= 0 }
}

func vfHeapRun(script string) (out string) {
	defer func() {
		if r := recover(); r != nil {
			out += "%PANIC"
		}
	}()
	reg := &vfHeapReg{ids: map[*MIME]int{}}
	var stack, results []*MIME
	var root *MIME
	var obs []string
	for _, tok := range strings.Split(script, ",") {
		if tok == "" {
			return "BADSCRIPT"
		}
		arg := tok[1:]
		res := ""
		switch tok[0] {
		case 'N': // N<tag><k>
			if len(arg) != 2 || root != nil {
				return "BADSCRIPT"
			}
			k := int(arg[1] - '0')
			if k < 0 || k > len(stack) {
				return "BADSCRIPT"
			}
			kids := append([]*MIME{}, stack[len(stack)-k:]...)
			stack = stack[:len(stack)-k]
			m := newMIME(vfHeapName(arg[0]), ".x", vfHeapDet(arg[0]), kids...)
			reg.reg(m)
			stack = append(stack, m)
			res = reg.id(m)
		default:
			if root == nil {
				if len(stack) != 1 {
					return "BADSCRIPT"
				}
				root = stack[0]
			}
			switch tok[0] {
			case 'E': // E<path>:<tag>
				f := strings.Split(arg, ":")
				if len(f) != 2 || len(f[1]) != 1 {
					return "BADSCRIPT"
				}
				m := root
				for _, d := range []byte(f[0]) {
					i := int(d - '0')
					if m == nil || i < 0 || i >= len(m.children) {
						m = nil
						break
					}
					m = m.children[i]
				}
				if m == nil {
					res = "nopath"
					break
				}
				m.Extend(vfHeapDet(f[1][0]), vfHeapName(f[1][0]), ".x")
				if len(m.children) > 0 {
					reg.reg(m.children[0])
					res = reg.id(m.children[0])
				} else {
					res = "nochild"
				}
			case 'X': // X<k>:<tag> : Extend on the k-th result
				f := strings.Split(arg, ":")
				if len(f) != 2 || len(f[1]) != 1 {
					return "BADSCRIPT"
				}
				k, err := strconv.Atoi(f[0])
				if err != nil || k < 0 || k >= len(results) {
					res = "noresult"
					break
				}
				m := results[k]
				m.Extend(vfHeapDet(f[1][0]), vfHeapName(f[1][0]), ".x")
				if len(m.children) > 0 {
					reg.reg(m.children[0])
					res = reg.id(m.children[0])
				} else {
					res = "nochild"
				}
			case 'M': // M<letters>
				r := root.match([]byte(arg), 0)
				n := 0
				for p := r; p != nil && n < 64; p = p.parent {
					reg.reg(p)
					n++
				}
				results = append(results, r)
				res = reg.id(r)
			case 'L': // L<tag>
				if len(arg) != 1 {
					return "BADSCRIPT"
				}
				res = reg.id(root.lookup(vfHeapName(arg[0])))
			case 'P': // P<k> : what a caller sees walking Parent() from the k-th result
				k, err := strconv.Atoi(arg)
				if err != nil || k < 0 || k >= len(results) {
					res = "noresult"
					break
				}
				var names []string
				n := 0
				for p := results[k]; p != nil && n < 64; p = p.Parent() {
					names = append(names, strings.ReplaceAll(p.String(), " ", "_"))
					n++
				}
				res = strings.Join(names, "<")
			default:
				return "BADSCRIPT"
			}
		}
		obs = append(obs, res+"@"+reg.dump(false))
		out = strings.Join(obs, "%")
	}
	return strings.Join(obs, "%")
}

func vfExecMore17(f []string, op string) (string, bool) {
	switch f[0] {
	case "heap": // heap script
		if len(f) != 2 {
			return op + " => BADSCRIPT", true
		}
		return fmt.Sprintf("%s => %s", op, vfHeapRun(f[1])), true
	case "realheap": // realheap script : the registered tree after the Extend script, as a heap (ids: pre-order)
		if vfBuiltin == nil {
			vfBuiltin = vfSnapshot()
		}
		vfBuiltin.restore()
		defer vfBuiltin.restore()
		if err := vfApplyScript(f[1]); err != nil {
			return op + " => BADSCRIPT", true
		}
		reg := &vfHeapReg{ids: map[*MIME]int{}}
		mu.RLock()
		for _, n := range root.flatten() {
			reg.reg(n)
		}
		d := reg.dump(true)
		mu.RUnlock()
		return fmt.Sprintf("%s => %s", op, d), true
	}
	return "", false
}

// ---------- generators ----------

type vfShape struct {
	kids []*vfShape
}

func (g *vfGen) heapTags() []byte {
	tags := []byte("abcdefgh")
	if g.intn(3) == 0 {
		tags = append(tags, 'T')
	}
	if g.intn(3) == 0 { // a small alphabet: several nodes with the same detector and name
		tags = tags[:3]
	}
	return tags
}

func (g *vfGen) heapBuild(depth int, budget *int, tags []byte, toks *[]string) *vfShape {
	s := &vfShape{}
	k := 0
	if depth < 4 && *budget > 0 {
		k = g.intn(4)
	}
	for i := 0; i < k && *budget > 0; i++ {
		*budget--
		s.kids = append(s.kids, g.heapBuild(depth+1, budget, tags, toks))
	}
	*toks = append(*toks, fmt.Sprintf("N%c%d", tags[g.intn(len(tags))], len(s.kids)))
	return s
}

func (g *vfGen) heapScript() string {
	tags := g.heapTags()
	var toks []string
	budget := g.intn(10)
	shape := g.heapBuild(0, &budget, tags, &toks)
	results := 0
	nops := 2 + g.intn(10)
	for i := 0; i < nops; i++ {
		switch g.intn(10) {
		case 0, 1, 2: // Extend somewhere in the tree
			path := ""
			s := shape
			for len(s.kids) > 0 && g.intn(3) != 0 {
				j := g.intn(len(s.kids))
				path += strconv.Itoa(j)
				s = s.kids[j]
			}
			if g.intn(25) == 0 {
				path += "7" // no such child
			} else {
				s.kids = append([]*vfShape{{}}, s.kids...)
			}
			toks = append(toks, fmt.Sprintf("E%s:%c", path, tags[g.intn(len(tags))]))
		case 3, 4, 5, 6: // match
			in := []byte("_")
			for _, t := range tags {
				if g.intn(2) == 0 {
					in = append(in, t)
				}
			}
			toks = append(toks, "M"+string(in))
			results++
		case 7:
			toks = append(toks, fmt.Sprintf("L%c", append(tags, 'z')[g.intn(len(tags)+1)]))
		case 8:
			if results > 0 {
				toks = append(toks, fmt.Sprintf("X%d:%c", g.intn(results), tags[g.intn(len(tags))]))
			}
		case 9:
			if results > 0 {
				toks = append(toks, fmt.Sprintf("P%d", g.intn(results)))
			}
		}
	}
	for k := 0; k < results; k++ { // every result is looked at again at the end
		toks = append(toks, fmt.Sprintf("P%d", k))
	}
	return strings.Join(toks, ",")
}

func (g *vfGen) genHeap() {
	for _, s := range []string{
		"Na0", "Na0,M_a", "Na0,Nb0,Nr2,M_a,M_b,M_ab,M_,P0,P1,P2,P3",
		"Na0,Nb1,Nc0,Nr2,M_ab,E0:d,M_abd,P0,Ld,La,Lz,X0:e,M_abd,P0,P1,P2",
		"NT0,Nr1,M_T,P0,E:T,M_T,P0,P1",
		"Na0,Nr1,E7:b,X3:c,P5,M_a,X0:a,M_a,P0,P1",
	} {
		g.emit(vfOp("heap", s))
	}
	for i := 0; i < g.pick(400, 12000); i++ {
		g.emit(vfOp("heap", g.heapScript()))
	}
}

func (g *vfGen) genRealHeap() {
	g.emit(vfOp("realheap", "~"))
	small := [][]byte{[]byte("x"), {}}
	for i := 0; i < g.pick(30, 400); i++ {
		g.emit(vfOp("realheap", g.randomScript(8, small)))
	}
}

func (g *vfGen) runMore17(slice string) bool {
	switch slice {
	case "heap":
		g.genHeap()
		g.genRealHeap()
	default:
		return false
	}
	return true
}
