//go:build verif

package mimetype

import (
	"bytes"
	"fmt"
	"mime"
	"os"
	"os/exec"
	"strconv"
	"strings"
	"syscall"
	"time"
)

// heap ops: the pointer structure mime.go builds (newMIME, Extend, match/cloneHierarchy, lookup,
// Parent) on a private tree, observed node by node.  Every *MIME is given an id at its first
// observation; observations are made in allocation order (the harness knows it: it makes the
// calls), so the ids are the addresses of the heap model (Model/Heap.lean) and the whole heap
// — name, parent pointer, children pointers of every node — is compared after every operation.

type vfHeapReg struct {
	ids   map[*MIME]int
	order []*MIME
}

func (r *vfHeapReg) reg(p *MIME) {
	if p == nil {
		return
	}
	if _, ok := r.ids[p]; !ok {
		r.ids[p] = len(r.order)
		r.order = append(r.order, p)
	}
}

func (r *vfHeapReg) id(p *MIME) string {
	if p == nil {
		return "-"
	}
	if i, ok := r.ids[p]; ok {
		return strconv.Itoa(i)
	}
	return "?"
}

func (r *vfHeapReg) dump(hexNames bool) string {
	var sb strings.Builder
	for i, p := range r.order {
		if i > 0 {
			sb.WriteByte(',')
		}
		ks := make([]string, len(p.children))
		for j, c := range p.children {
			ks[j] = r.id(c)
		}
		name := strings.ReplaceAll(p.mime, " ", "_")
		if hexNames {
			name = vfHex([]byte(p.mime))
		}
		sb.WriteString(name + "|" + r.id(p.parent) + "|" + strings.Join(ks, "."))
	}
	return sb.String()
}

func vfHeapName(tag byte) string {
	if tag == 'T' {
		return "text/plain"
	}
	return "x/" + string(tag)
}

func vfHeapDet(tag byte) func([]byte, uint32) bool {
	return func(raw []byte, _ uint32) bool { return bytes.IndexByte(raw, tag) >= 0 }
}

func vfHeapRun(script string) (out string) {
	defer func() {
		if r := recover(); r != nil {
			out += "%PANIC"
		}
	}()
	reg := &vfHeapReg{ids: map[*MIME]int{}}
	var stack, results []*MIME
	var root *MIME
	var obs []string
	for _, tok := range strings.Split(script, ",") {
		if tok == "" {
			return "BADSCRIPT"
		}
		arg := tok[1:]
		res := ""
		switch tok[0] {
		case 'N': // N<tag><k>
			if len(arg) != 2 || root != nil {
				return "BADSCRIPT"
			}
			k := int(arg[1] - '0')
			if k < 0 || k > len(stack) {
				return "BADSCRIPT"
			}
			kids := append([]*MIME{}, stack[len(stack)-k:]...)
			stack = stack[:len(stack)-k]
			m := newMIME(vfHeapName(arg[0]), ".x", vfHeapDet(arg[0]), kids...)
			reg.reg(m)
			stack = append(stack, m)
			res = reg.id(m)
		default:
			if root == nil {
				if len(stack) != 1 {
					return "BADSCRIPT"
				}
				root = stack[0]
			}
			switch tok[0] {
			case 'E': // E<path>:<tag>
				f := strings.Split(arg, ":")
				if len(f) != 2 || len(f[1]) != 1 {
					return "BADSCRIPT"
				}
				m := root
				for _, d := range []byte(f[0]) {
					i := int(d - '0')
					if m == nil || i < 0 || i >= len(m.children) {
						m = nil
						break
					}
					m = m.children[i]
				}
				if m == nil {
					res = "nopath"
					break
				}
				m.Extend(vfHeapDet(f[1][0]), vfHeapName(f[1][0]), ".x")
				if len(m.children) > 0 {
					reg.reg(m.children[0])
					res = reg.id(m.children[0])
				} else {
					res = "nochild"
				}
			case 'X': // X<k>:<tag> : Extend on the k-th result
				f := strings.Split(arg, ":")
				if len(f) != 2 || len(f[1]) != 1 {
					return "BADSCRIPT"
				}
				k, err := strconv.Atoi(f[0])
				if err != nil || k < 0 || k >= len(results) {
					res = "noresult"
					break
				}
				m := results[k]
				m.Extend(vfHeapDet(f[1][0]), vfHeapName(f[1][0]), ".x")
				if len(m.children) > 0 {
					reg.reg(m.children[0])
					res = reg.id(m.children[0])
				} else {
					res = "nochild"
				}
			case 'M': // M<letters>
				r := root.match([]byte(arg), 0)
				n := 0
				for p := r; p != nil && n < 64; p = p.parent {
					reg.reg(p)
					n++
				}
				results = append(results, r)
				res = reg.id(r)
			case 'L': // L<tag>
				if len(arg) != 1 {
					return "BADSCRIPT"
				}
				res = reg.id(root.lookup(vfHeapName(arg[0])))
			case 'P': // P<k> : what a caller sees walking Parent() from the k-th result
				k, err := strconv.Atoi(arg)
				if err != nil || k < 0 || k >= len(results) {
					res = "noresult"
					break
				}
				var names []string
				n := 0
				for p := results[k]; p != nil && n < 64; p = p.Parent() {
					names = append(names, strings.ReplaceAll(p.String(), " ", "_"))
					n++
				}
				res = strings.Join(names, "<")
			default:
				return "BADSCRIPT"
			}
		}
		obs = append(obs, res+"@"+reg.dump(false))
		out = strings.Join(obs, "%")
	}
	return strings.Join(obs, "%")
}

func vfExecMore17(f []string, op string) (string, bool) {
	switch f[0] {
	case "heap": // heap script
		if len(f) != 2 {
			return op + " => BADSCRIPT", true
		}
		return fmt.Sprintf("%s => %s", op, vfHeapRun(f[1])), true
	case "isx": // isx namehex shex : Is on any string, judged with the real mime.ParseMediaType as normaliser
		m := Lookup(string(vfUnhex(f[1])))
		if m == nil {
			return op + " => NOLOOKUP", true
		}
		sx := string(vfUnhex(f[2]))
		norm, _, _ := mime.ParseMediaType(sx)
		return fmt.Sprintf("%s => %s%s %s", op, vfBit(m.Is(sx)), vfBit(EqualsAny(sx, string(vfUnhex(f[1])))), vfHexOrDash([]byte(norm))), true
	case "eqanyx": // eqanyx shex thex
		a, b := string(vfUnhex(f[1])), string(vfUnhex(f[2]))
		na, _, _ := mime.ParseMediaType(a)
		nb, _, _ := mime.ParseMediaType(b)
		return fmt.Sprintf("%s => %s %s %s", op, vfBit(EqualsAny(a, b)), vfHexOrDash([]byte(na)), vfHexOrDash([]byte(nb))), true
	case "hugelim": // hugelim lim hex : DetectReader under a limit next to 2^32 (a buffer of that size), in a child process
		cmd := exec.Command(os.Args[0])
		cmd.Env = append(os.Environ(), "VERIF_CMD=hugechild", "VERIF_HUGE="+f[1]+":"+f[2])
		var out bytes.Buffer
		cmd.Stdout = &out
		done := make(chan error, 1)
		if err := cmd.Start(); err != nil {
			return op + " => NOCHILD", true
		}
		go func() { done <- cmd.Wait() }()
		select {
		case err := <-done:
			if err != nil { // the environment could not give the child that much memory
				return op + " => NOMEM", true
			}
		case <-time.After(120 * time.Second):
			cmd.Process.Kill()
			return op + " => NOMEM", true
		}
		for _, l := range strings.Split(out.String(), "\n") {
			if strings.HasPrefix(l, "RESULT ") {
				return op + " => " + l[7:], true
			}
		}
		return op + " => NOMEM", true
	case "bigslice": // bigslice lim extra hex : Detect on a slice of 2^32+extra bytes (content, then zeros), limit > 0
		lim64, _ := strconv.ParseUint(f[1], 10, 32)
		extra, _ := strconv.Atoi(f[2])
		content := vfUnhex(f[3])
		if lim64 == 0 || extra < 0 {
			return op + " => BADARGS", true
		}
		size := (1 << 32) + extra
		mem, err := syscall.Mmap(-1, 0, size, syscall.PROT_READ|syscall.PROT_WRITE, syscall.MAP_PRIVATE|syscall.MAP_ANON|syscall.MAP_NORESERVE)
		if err != nil {
			return op + " => NOMAP", true
		}
		defer syscall.Munmap(mem)
		copy(mem, content)
		SetLimit(uint32(lim64))
		m := Detect(mem)
		hdr := make([]byte, lim64) // what the first `limit` bytes of that slice are
		copy(hdr, content)
		d := Detect(hdr)
		return fmt.Sprintf("%s => %s %s", op, vfRes(m), vfRes(d)), true
	case "bigfile": // bigfile lim extra hex : DetectFile on a sparse file of 2^32+extra bytes, limit > 0
		lim64, _ := strconv.ParseUint(f[1], 10, 32)
		extra, _ := strconv.Atoi(f[2])
		content := vfUnhex(f[3])
		if lim64 == 0 || extra < 0 {
			return op + " => BADARGS", true
		}
		tf, err := os.CreateTemp("", "vf-big-*")
		if err != nil {
			return op + " => NOTEMP", true
		}
		name := tf.Name()
		defer os.Remove(name)
		tf.Write(content)
		if err := tf.Truncate((1 << 32) + int64(extra)); err != nil {
			tf.Close()
			return op + " => NOTEMP", true
		}
		tf.Close()
		SetLimit(uint32(lim64))
		m, derr := DetectFile(name)
		hdr := make([]byte, lim64)
		copy(hdr, content)
		d := Detect(hdr)
		return fmt.Sprintf("%s => %s %s %s", op, vfErrClass(derr), vfRes(m), vfRes(d)), true
	case "realheap": // realheap script : the registered tree after the Extend script, as a heap (ids: pre-order)
		if vfBuiltin == nil {
			vfBuiltin = vfSnapshot()
		}
		vfBuiltin.restore()
		defer vfBuiltin.restore()
		if err := vfApplyScript(f[1]); err != nil {
			return op + " => BADSCRIPT", true
		}
		reg := &vfHeapReg{ids: map[*MIME]int{}}
		mu.RLock()
		for _, n := range root.flatten() {
			reg.reg(n)
		}
		d := reg.dump(true)
		mu.RUnlock()
		return fmt.Sprintf("%s => %s", op, d), true
	}
	return "", false
}

// ---------- generators ----------

type vfShape struct {
	kids []*vfShape
}

func (g *vfGen) heapTags() []byte {
	tags := []byte("abcdefgh")
	if g.intn(3) == 0 {
		tags = append(tags, 'T')
	}
	if g.intn(3) == 0 { // a small alphabet: several nodes with the same detector and name
		tags = tags[:3]
	}
	return tags
}

func (g *vfGen) heapBuild(depth int, budget *int, tags []byte, toks *[]string) *vfShape {
	s := &vfShape{}
	k := 0
	if depth < 4 && *budget > 0 {
		k = g.intn(4)
	}
	for i := 0; i < k && *budget > 0; i++ {
		*budget--
		s.kids = append(s.kids, g.heapBuild(depth+1, budget, tags, toks))
	}
	*toks = append(*toks, fmt.Sprintf("N%c%d", tags[g.intn(len(tags))], len(s.kids)))
	return s
}

func (g *vfGen) heapScript() string {
	tags := g.heapTags()
	var toks []string
	budget := g.intn(10)
	shape := g.heapBuild(0, &budget, tags, &toks)
	results := 0
	nops := 2 + g.intn(10)
	for i := 0; i < nops; i++ {
		switch g.intn(10) {
		case 0, 1, 2: // Extend somewhere in the tree
			path := ""
			s := shape
			for len(s.kids) > 0 && g.intn(3) != 0 {
				j := g.intn(len(s.kids))
				path += strconv.Itoa(j)
				s = s.kids[j]
			}
			if g.intn(25) == 0 {
				path += "7" // no such child
			} else {
				s.kids = append([]*vfShape{{}}, s.kids...)
			}
			toks = append(toks, fmt.Sprintf("E%s:%c", path, tags[g.intn(len(tags))]))
		case 3, 4, 5, 6: // match
			in := []byte("_")
			for _, t := range tags {
				if g.intn(2) == 0 {
					in = append(in, t)
				}
			}
			toks = append(toks, "M"+string(in))
			results++
		case 7:
			toks = append(toks, fmt.Sprintf("L%c", append(tags, 'z')[g.intn(len(tags)+1)]))
		case 8:
			if results > 0 {
				toks = append(toks, fmt.Sprintf("X%d:%c", g.intn(results), tags[g.intn(len(tags))]))
			}
		case 9:
			if results > 0 {
				toks = append(toks, fmt.Sprintf("P%d", g.intn(results)))
			}
		}
	}
	for k := 0; k < results; k++ { // every result is looked at again at the end
		toks = append(toks, fmt.Sprintf("P%d", k))
	}
	return strings.Join(toks, ",")
}

func (g *vfGen) genHeap() {
	for _, s := range []string{
		"Na0", "Na0,M_a", "Na0,Nb0,Nr2,M_a,M_b,M_ab,M_,P0,P1,P2,P3",
		"Na0,Nb1,Nc0,Nr2,M_ab,E0:d,M_abd,P0,Ld,La,Lz,X0:e,M_abd,P0,P1,P2",
		"NT0,Nr1,M_T,P0,E:T,M_T,P0,P1",
		"Na0,Nr1,E7:b,X3:c,P5,M_a,X0:a,M_a,P0,P1",
	} {
		g.emit(vfOp("heap", s))
	}
	for i := 0; i < g.pick(400, 12000); i++ {
		g.emit(vfOp("heap", g.heapScript()))
	}
}

func (g *vfGen) genRealHeap() {
	g.emit(vfOp("realheap", "~"))
	small := [][]byte{[]byte("x"), {}}
	for i := 0; i < g.pick(30, 400); i++ {
		g.emit(vfOp("realheap", g.randomScript(8, small)))
	}
}

// vfHugeChild: one DetectReader / Detect pair under a huge limit; a runtime out-of-memory failure ends this process only
func vfHugeChild() {
	f := strings.Split(os.Getenv("VERIF_HUGE"), ":")
	lim, _ := strconv.ParseUint(f[0], 10, 32)
	data := vfUnhex(f[1])
	SetLimit(uint32(lim))
	m, err := DetectReader(bytes.NewReader(data))
	d := Detect(data)
	fmt.Printf("RESULT %s %s %s\n", vfErrClass(err), vfRes(m), vfRes(d))
}

func vfHexOrDash(b []byte) string {
	if len(b) == 0 {
		return "-"
	}
	return vfHex(b)
}

// Is / EqualsAny on strings outside ASCII (Unicode case folding, letters that lower-case to ASCII,
// full-width forms) and on very long decorated strings
func (g *vfGen) genIsX() {
	mu.RLock()
	var names []string
	for _, n := range root.flatten() {
		names = append(names, n.mime)
		names = append(names, n.aliases...)
	}
	mu.RUnlock()
	fold := map[byte]string{'s': "\u017f", 'k': "\u212a", 'i': "\u0130", 'a': "\uff41", 'e': "\u00e9", 'o': "\u03bf", 'c': "\u0441", 'x': "\u00d7"}
	for _, n := range names {
		b := []byte(n)
		var idx []int
		for i, c := range b {
			if _, ok := fold[c]; ok {
				idx = append(idx, i)
			}
		}
		for r := 0; r < 3 && len(idx) > 0; r++ {
			i := idx[g.intn(len(idx))]
			v := n[:i] + fold[n[i]] + n[i+1:]
			g.emit(vfOp("isx", []byte(n), []byte(v)))
			g.emit(vfOp("eqanyx", []byte(v), []byte(n)))
			g.emit(vfOp("parse", []byte(v+"; a=\"b\"")))
			if g.intn(2) == 0 {
				g.emit(vfOp("isx", []byte(n), []byte(v+"; charset=utf-8")))
				g.emit(vfOp("isx", []byte(n), []byte(strings.ToUpper(v))))
			}
		}
		// long but well-formed: parameters and white space far beyond any sensible name length
		long := n + "; " + strings.Repeat("p", 40+g.intn(300)) + "=" + strings.Repeat("v", 40+g.intn(300))
		g.emit(vfOp("isx", []byte(n), []byte(long)))
		g.emit(vfOp("eqanyx", []byte(long), []byte(n)))
		g.emit(vfOp("eqanyx", []byte(n), []byte(long)))
		g.emit(vfOp("isx", []byte(n), []byte(strings.Repeat(" ", 100+g.intn(300))+n+strings.Repeat("\t", g.intn(300)))))
		g.emit(vfOp("isx", []byte(n), []byte(n+"\u00a0")))
		// Unicode white space (and look-alikes that are not) around the type and after `;`, invalid UTF-8
		for _, w := range []string{"\u00a0", "\u0085", "\u2028", "\u3000", "\u200b", "\ufeff", "\u180e", "\xa0", "\xff", "\xc2", "\xe2\x84"} {
			if g.intn(4) == 0 {
				g.emit(vfOp("isx", []byte(n), []byte(w+n)))
				g.emit(vfOp("isx", []byte(n), []byte(n+w+"; q=1")))
				g.emit(vfOp("parse", []byte(n+";"+w+"a=b")))
				g.emit(vfOp("parse", []byte(n+w)))
				g.emit(vfOp("eqanyx", []byte(w+n), []byte(n+w)))
			}
		}
		g.emit(vfOp("isx", []byte(n), []byte(n+"; x=\"\u00e9\"")))
	}
}

// inputs of 4 GiB and more: lengths and sizes that do not fit 32 bits (sparse: nothing large is
// written or read; limit > 0 throughout)
func (g *vfGen) genBig() {
	// limits next to 2^32 on the reader path (the header buffer is sized by the limit, whatever arithmetic is used on
	// the way); each call allocates a buffer of that size, in a child process
	for k, lim := range []uint32{4294967295, 4294963201, 4294967294, 4294963200, 2147483648} {
		if k >= 2 && !g.thorough {
			break
		}
		g.emit(vfOp("hugelim", lim, []byte(`{"a":[1,2,3]}`)))
	}
	svg := []byte("<?xml version=\"1.0\"?><!-- " + strings.Repeat("c", 120) + " --><svg xmlns=\"http://www.w3.org/2000/svg\"></svg>")
	for _, extra := range []int{5, 100, 3071, 0, 70000} {
		for _, lim := range []int{3072, 16, 65536} {
			g.emit(vfOp("bigslice", lim, extra, []byte("hello")))
			g.emit(vfOp("bigslice", lim, extra, svg))
			g.emit(vfOp("bigfile", lim, extra, []byte("hello")))
			g.emit(vfOp("bigfile", lim, extra, svg))
			g.emit(vfOp("bigfile", lim, extra, append([]byte("%PDF-1.7\n"), g.textBytes(200)...)))
		}
	}
}

func (g *vfGen) runMore17(slice string) bool {
	switch slice {
	case "big":
		g.genBig()
	case "isx":
		g.genIsX()
	case "heap":
		g.genHeap()
		g.genRealHeap()
	default:
		return false
	}
	return true
}
