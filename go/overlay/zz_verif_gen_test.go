//go:build verif

package mimetype

// Input generators for the correspondence slices.  Every random choice derives from
// g.rng (seeded from VERIF_SEED and the slice name), so a run is replayable.

import (
	"bytes"
	"encoding/hex"
	stdjson "encoding/json"
	"fmt"
	"os"
	"sort"
	"strings"
)

type vfFacts struct {
	Detectors  map[string]string   `json:"detectors"`
	Literals   map[string][]int64  `json:"literals"`
	Signatures map[string][]string `json:"signatures"`
}

var vfFactsCache *vfFacts

func vfLoadFacts() *vfFacts {
	if vfFactsCache != nil {
		return vfFactsCache
	}
	f := &vfFacts{}
	if p := os.Getenv("VERIF_FACTS"); p != "" {
		if b, err := os.ReadFile(p); err == nil {
			stdjson.Unmarshal(b, f)
		}
	}
	vfFactsCache = f
	return f
}

func vfDetNames() []string {
	var names []string
	for n := range vfLoadFacts().Detectors {
		names = append(names, n)
	}
	sort.Strings(names)
	return names
}

// vfCorpus: the suite's own headers plus testdata files.
func vfCorpus() [][]byte {
	var out [][]byte
	for _, tc := range testcases {
		out = append(out, []byte(tc.data))
	}
	out = append(out, vfDirectedAll()...)
	if ents, err := os.ReadDir("testdata"); err == nil {
		for _, e := range ents {
			if b, err := os.ReadFile("testdata/" + e.Name()); err == nil {
				out = append(out, b)
			}
		}
	}
	return out
}

func (g *vfGen) bytes(n int) []byte {
	b := make([]byte, n)
	for i := range b {
		b[i] = byte(g.intn(256))
	}
	return b
}

func (g *vfGen) textBytes(n int) []byte {
	const alpha = "abcdefghij klmnopqrstuvwxyz ABCDEFG 0123456789 .,;:!?-_()[]{}<>/\\\"'=+*&%$#@\t\n\r"
	b := make([]byte, n)
	for i := range b {
		b[i] = alpha[g.intn(len(alpha))]
	}
	return b
}

func vfOp(name string, parts ...any) string {
	s := name
	for _, p := range parts {
		switch x := p.(type) {
		case []byte:
			s += " " + vfHex(x)
		case string:
			s += " " + x
		default:
			s += fmt.Sprintf(" %v", x)
		}
	}
	return s
}

var vfLimits = []uint32{0, 1, 2, 3, 16, 3072, 1 << 20, 4294967295}

func (g *vfGen) run(slice string) bool {
	switch slice {
	case "tree":
		g.emit("treeeq")
	case "corpus":
		g.genCorpus()
	case "dets":
		g.genDets()
	case "C07":
		g.genC07()
	case "json":
		g.genJSONSmall()
	case "charset":
		g.genCharset()
	default:
		return g.runMore(slice)
	}
	return true
}

// corpus: every suite header through Detect at several limits, whole and cut.
func (g *vfGen) genCorpus() {
	for _, c := range vfCorpus() {
		if len(c) > 1<<16 {
			c = c[:1<<16]
		}
		lims := []uint32{0, 3072}
		if len(c) > 2 {
			lims = append(lims, uint32(len(c)), uint32(len(c)-1), uint32(len(c)+1), uint32(1+g.intn(len(c))))
		}
		for _, l := range lims {
			g.emit(vfOp("walk", c, l))
		}
	}
}

// dets: each signature check directly, on inputs derived from its own literals.
func (g *vfGen) genDets() {
	fx := vfLoadFacts()
	corpus := vfCorpus()
	directed := vfDirected()
	for _, name := range vfDetNames() {
		var seeds [][]byte
		for _, s := range fx.Signatures[name] {
			b, _ := hex.DecodeString(s)
			seeds = append(seeds, b)
		}
		// corpus entries this detector accepts
		var accepted [][]byte
		d := vfDetectorByName(name)
		if d != nil {
			k := 0
			for _, c := range corpus {
				if len(c) <= 8192 && vfSafeDet(d, c, 0) == "T" {
					seeds = append(seeds, c)
					accepted = append(accepted, c)
					k++
					if k >= 3 {
						break
					}
				}
			}
		}
		for _, c := range directed[name] {
			if d != nil && vfSafeDet(d, c, 0) == "T" {
				accepted = append(accepted, c)
			}
		}
		// numeric fields parsed with library routines accept more than digits (a sign, an underscore): each of the
		// first bytes of an accepted sample replaced by such a byte (emitted as they are, nothing is derived from them)
		for _, sd := range accepted {
			if len(sd) < 8 || len(sd) > 8192 {
				continue
			}
			for i := 0; i < 6; i++ {
				for _, c := range []byte{'-', '+', '_'} {
					v := append([]byte{}, sd...)
					v[i] = c
					g.emit(vfOp("det", name, v, 0))
					g.emit(vfOp("det", name, v, len(v)))
				}
			}
		}
		seeds = append(seeds, []byte{}, g.bytes(8), g.bytes(64))
		seeds = append(seeds, []byte(" "), []byte("\n"), []byte(" \t\r\n\x0c  "), []byte("\xef\xbb\xbf"), []byte("\xef\xbb\xbf \n"),
			[]byte("#!"), []byte("#! "), []byte("#!\n"), []byte("#!  \t \r\n"), []byte("#!\t\nx"), []byte("<"), []byte("<?"), []byte("<!"), []byte("<!--"))
		for _, sh := range fx.Signatures[name] {
			b, _ := hex.DecodeString(sh)
			lo, up := bytes.ToLower(b), bytes.ToUpper(b)
			if !bytes.Equal(lo, b) {
				seeds = append(seeds, lo, append(append([]byte{}, lo...), ' ', 'x', '>'))
			}
			if !bytes.Equal(up, b) {
				seeds = append(seeds, up, append(append([]byte{}, up...), ' ', 'x', '>'))
			}
		}
		seeds = append(seeds, directed[name]...)
		// kind-specific placements: the combinators compare positions (an XML local name must not be at
		// index 0 and must precede the namespace; both are searched in the first 512 bytes after white space;
		// shebang / markup / case-insensitive prefixes sit at the very start, after white space or a BOM)
		if k := fx.Detectors[name]; k == "xml" || k == "shebang" || k == "ciPrefix" || k == "markup" {
			fixed := len(seeds) // the literal, case and directed seeds above are never sampled away
			var lits [][]byte
			for _, sh := range fx.Signatures[name] {
				b, _ := hex.DecodeString(sh)
				lits = append(lits, b)
			}
			for i, a := range lits {
				la := append([]byte("<"), a...)
				for _, pre := range []string{"", " ", "\n\t ", "x", "<?xml version=\"1.0\"?>", "\xef\xbb\xbf", "#!", "#! "} {
					for _, post := range []string{"", " ", ">", "\n", " a=\"b\">"} {
						seeds = append(seeds, []byte(pre+string(a)+post), []byte(pre+string(la)+post))
					}
				}
				for j, b := range lits {
					if i != j {
						seeds = append(seeds, []byte("<r>"+string(la)+" "+string(b)+">"), []byte("<r "+string(b)+">"+string(la)+">"), []byte(string(la)+" "+string(b)), []byte(string(b)+string(la)))
					}
				}
				for _, pad := range []int{500, 505, 508, 511, 512, 513} {
					seeds = append(seeds, append(append([]byte("<x>"), bytes.Repeat([]byte("y"), pad)...), la...))
				}
			}
			// quick tier: a seeded sample of the placements (every one of them in the thorough tier)
			if pl := seeds[fixed:]; !g.thorough && len(pl) > 40 {
				g.rng.Shuffle(len(pl), func(a, b int) { pl[a], pl[b] = pl[b], pl[a] })
				seeds = seeds[:fixed+40]
			}
		}
		// compound files carrying each 8- to 16-byte literal of the check as the root CLSID (v3 and v4 sectors)
		for _, lh := range fx.Signatures[name] {
			lit, _ := hex.DecodeString(lh)
			if len(lit) < 8 || len(lit) > 16 { // a whole CLSID, or the leading bytes of one (Xls compares eight)
				continue
			}
			for _, v4 := range []bool{false, true} {
				for _, sec := range []int{0, 1, 3} {
					sl := 512
					if v4 {
						sl = 4096
					}
					off := sl*(1+sec) + 80
					f := vfPad([]byte{0xD0, 0xCF, 0x11, 0xE0, 0xA1, 0xB1, 0x1A, 0xE1}, off+17)
					if v4 {
						f[26] = 4
					}
					f[48] = byte(sec)
					copy(f[off:], lit)
					seeds = append(seeds, f, f[:off+16])
				}
			}
		}
		lits := fx.Literals[name]
		for _, s := range seeds {
			// every cut length of short seeds; boundary lengths around literals for long ones
			cuts := map[int]bool{len(s): true}
			if len(s) <= 80 {
				for i := 0; i <= len(s); i++ {
					cuts[i] = true
				}
			} else {
				for i := 0; i < g.pick(12, 60); i++ {
					cuts[g.intn(len(s)+1)] = true
				}
			}
			for _, l := range lits {
				for _, d := range []int64{-1, 0, 1} {
					if v := l + d; v >= 0 && v <= int64(len(s)) {
						cuts[int(v)] = true
					}
				}
			}
			for c := range cuts {
				for _, lim := range []uint32{0, uint32(c), 3072} {
					g.emit(vfOp("det", name, s[:c], lim))
				}
			}
			// padded to literal-derived lengths
			for _, l := range lits {
				for _, d := range []int64{-1, 0, 1} {
					n := l + d
					if n > int64(len(s)) && n <= 8192 {
						p := append(append([]byte{}, s...), g.bytes(int(n)-len(s))...)
						g.emit(vfOp("det", name, p, 0))
						z := append(append([]byte{}, s...), make([]byte, int(n)-len(s))...)
						g.emit(vfOp("det", name, z, 0))
					}
				}
			}
			// the detector's own literals planted after the seed (whole), at a few gaps
			if len(s) > 0 && len(s) <= 4096 {
				for _, lh := range fx.Signatures[name] {
					lit, _ := hex.DecodeString(lh)
					for _, gap := range []int{0, 7, 600} {
						p := append(append(append([]byte{}, s...), make([]byte, gap)...), lit...)
						g.emit(vfOp("det", name, p, 0))
					}
				}
			}
			// single byte flips
			if len(s) > 0 && len(s) <= 600 {
				for i := 0; i < g.pick(6, 40); i++ {
					m := append([]byte{}, s...)
					m[g.intn(len(m))] ^= byte(1 << uint(g.intn(8)))
					g.emit(vfOp("det", name, m, 0))
				}
			}
		}
	}
}

func (g *vfGen) genC07() {
	// long texts: a single binary byte far beyond the default limit, examined with no limit or a larger one
	for k := 0; k < g.pick(24, 400); k++ {
		n := 3100 + g.intn(6000)
		txt := g.textBytes(n)
		for len(txt) < n {
			txt = append(txt, g.textBytes(n-len(txt))...)
		}
		g.emit(vfOp("walk", txt, 0))
		pos := 3072 + g.intn(len(txt)-3072)
		if k%5 == 0 {
			pos = 3072 + k%3
		}
		bad := []byte{0x00, 0x01, 0x08, 0x0B, 0x0E, 0x1A, 0x1C, 0x1F, 0x07, 0x1B, 0x7F}[g.intn(11)]
		c := append([]byte{}, txt...)
		c[pos] = bad
		for _, lim := range []int{0, len(c) + 1, pos + 1, pos, 8192, 3072} {
			g.emit(vfOp("walk", c, lim))
		}
	}
	// a byte-order mark decides by itself, whatever follows: bytes that are not valid UTF-8 (a Latin-1 letter, a lone
	// continuation byte, a multi-byte character cut by the limit) together with binary-data bytes, in both orders
	for _, bom := range [][]byte{{0xEF, 0xBB, 0xBF}, {0xFE, 0xFF}, {0xFF, 0xFE}} {
		for _, bad := range [][]byte{{0xE9}, {0x80}, {0xFF}, {0xC3}, {0xE2, 0x82}, {0xF0, 0x9F, 0x98}} {
			for _, bin := range []byte{0x00, 0x01, 0x08, 0x0E, 0x1F} {
				a := append(append(append(append([]byte{}, bom...), []byte("caf")...), bad...), bin)
				b := append(append(append(append([]byte{}, bom...), bin), []byte(" x ")...), bad...)
				c := append(append(append(append([]byte{}, bom...), bin), []byte("h\xc3\xa9llo w\xc3\xb6rld \xe2\x82\xac")...), 'z')
				for _, in := range [][]byte{a, b} {
					g.emit(vfOp("walk", in, 0))
					g.emit(vfOp("walk", in, len(in)))
					g.emit(vfOp("walk", in, 3072))
				}
				for l := len(bom) + 2; l <= len(c); l++ { // every cut, the ones inside a character included
					g.emit(vfOp("walk", c, l))
				}
			}
		}
	}
	carriers := [][]byte{[]byte(""), []byte("a"), []byte("hello, world\n"), []byte("line one\r\nline two\r\n\ttabbed\x0c"), g.textBytes(40)}
	boms := [][]byte{nil, {0xEF, 0xBB, 0xBF}, {0xFE, 0xFF}, {0xFF, 0xFE}, {0, 0, 0xFE, 0xFF}, {0xFF, 0xFE, 0, 0}, {0xEF, 0xBB}, {0xFE}}
	for _, car := range carriers {
		for _, bom := range boms {
			for v := 0; v < 256; v++ {
				poss := []int{0, len(car)}
				if len(car) > 2 {
					poss = append(poss, 1, len(car)/2)
				}
				if !g.thorough && len(poss) > 2 {
					poss = poss[:3]
				}
				for _, p := range poss {
					in := append([]byte{}, bom...)
					in = append(in, car[:p]...)
					in = append(in, byte(v))
					in = append(in, car[p:]...)
					g.emit(vfOp("walk", in, 0))
					// the byte just inside / just outside the limit
					at := len(bom) + p
					if g.thorough || v < 0x21 || v == 0x7F {
						g.emit(vfOp("walk", in, at+1))
						if at > 0 {
							g.emit(vfOp("walk", in, at))
						}
					}
				}
			}
		}
	}
}

// all strings over a 16-symbol JSON alphabet up to a small length, every query
func (g *vfGen) genJSONSmall() {
	alpha := []byte{'{', '}', '[', ']', '"', ':', ',', ' ', '1', 'e', '-', '.', 't', '\\', 0x0C, 'u'}
	maxLen := g.pick(4, 5)
	var rec func(cur []byte)
	rec = func(cur []byte) {
		g.emit(vfOp("jparse", "json", cur))
		if len(cur) == maxLen {
			return
		}
		for _, a := range alpha {
			rec(append(append([]byte{}, cur...), a))
		}
	}
	rec(nil)
}

func (g *vfGen) genCharset() {
	classes := []byte{'a', '\n', 0x1B, 0x7F, 0x85, 0x90, 0xA0, 0xC3, 0xE0, 0xE2, 0xF0, 0xFF, 0xC0}
	maxLen := g.pick(4, 5)
	var rec func(cur []byte)
	rec = func(cur []byte) {
		g.emit(vfOp("cs", "plain", cur))
		if len(cur) == maxLen {
			return
		}
		for _, a := range classes {
			rec(append(append([]byte{}, cur...), a))
		}
	}
	rec(nil)
}

var _ = strings.Join
