//go:build verif

package mimetype

import (
	"bytes"
	"fmt"
	"math/rand"
	"os"
	"runtime"
	"strings"
	"sync"
	"sync/atomic"
	"time"
)

func vfExecMore11(f []string, op string) (string, bool) { return vfExecMore12(f, op) }

func (g *vfGen) runMore11(slice string) bool {
	switch slice {
	case "race":
		g.raceStress()
	default:
		return g.runMore12(slice)
	}
	return true
}

// raceStress: concurrent use of the whole public API (run from a -race build).  Prints
// one protocol line: `race <params> => <violations>`; data races are reported by the
// race detector on stderr and through the exit status.
var vfSharedAliases = []string{"Application/X-Verif-Shared; v=1", "APPLICATION/X-VERIF-SHARED-TWO", " application/x-verif-shared-3 "}

func (g *vfGen) raceStress() {
	secs := 4
	if g.thorough {
		secs = 40
	}
	if v := os.Getenv("VERIF_RACE_SECS"); v != "" {
		fmt.Sscan(v, &secs)
	}
	procs := []int{2, 4, 16}[g.intn(3)]
	if v := os.Getenv("VERIF_RACE_PROCS"); v != "" {
		fmt.Sscan(v, &procs)
	}
	runtime.GOMAXPROCS(procs)
	limits := []uint32{0, 16, 23, 3072}
	inputs := [][]byte{[]byte(`{"a":[1,2,3],"b":"some text that goes on","c":{"d":null}}`), []byte("a,b,c,d\n1,2,3,4\n5,6,7,8\n9,10,11,12\n"),
		[]byte("  [1, 2, 3, 4, 5, 6, 7, 8, 9"), []byte("a,b,c,d\n1,2,3,4\n5,6,7,8\n9,"), []byte("PK\x03\x04"), []byte("{\"a\":[1,2,3]}"), []byte("a,b\n1,2\n3,4\n"), []byte("<html><meta charset=x>"),
		[]byte("\x89PNG\r\n\x1a\n"), g.textBytes(200), {}, []byte("VERIF-EXT-0 hello"), []byte("VERIF-EXT-3 hello")}
	// every sample file, shared by all goroutines as one backing array each: a detector that writes into its
	// input, even if it puts the bytes back, races with the other readers of the same slice
	for _, c := range vfCorpus() {
		if len(c) > 8192 {
			c = c[:8192]
		}
		inputs = append(inputs, c)
	}
	// sequential oracle: results at every limit, before any extension
	oracle := make([]map[string]bool, len(inputs))
	for i, in := range inputs {
		oracle[i] = map[string]bool{}
		for _, l := range limits {
			SetLimit(l)
			oracle[i][Detect(in).String()] = true
		}
	}
	tf, _ := os.CreateTemp("", "vf-race-*")
	tf.Write(inputs[1])
	tf.Close()
	defer os.Remove(tf.Name())
	var violations int64
	var firstMsg atomic.Value
	report := func(format string, a ...any) {
		atomic.AddInt64(&violations, 1)
		firstMsg.CompareAndSwap(nil, fmt.Sprintf(format, a...))
	}
	stop := make(chan struct{})
	var wg sync.WaitGroup
	var extCount int64
	var registered sync.Map
	seedBase := g.rng.Int63()
	worker := func(id int, role string) {
		defer wg.Done()
		rng := rand.New(rand.NewSource(seedBase + int64(id)))
		for {
			select {
			case <-stop:
				return
			default:
			}
			if rng.Intn(4) == 0 {
				runtime.Gosched()
			}
			switch role {
			case "detect":
				i := rng.Intn(len(inputs))
				var m *MIME
				switch rng.Intn(3) {
				case 0:
					m = Detect(inputs[i])
				case 1:
					m, _ = DetectReader(bytes.NewReader(inputs[i]))
				default:
					if i == 1 {
						m, _ = DetectFile(tf.Name())
					} else {
						m = Detect(inputs[i])
					}
				}
				s := m.String()
				ok := oracle[i][s] || strings.HasPrefix(s, "application/x-verif-race-")
				if !ok {
					report("input %d: result %q is not a sequential result", i, s)
				}
				// accessors of the result
				for p := m; p != nil; p = p.Parent() {
					_ = p.Extension()
					_ = p.Is("text/plain")
				}
			case "lookup":
				k := rng.Int63n(atomic.LoadInt64(&extCount) + 1)
				names := []string{"application/zip", "application/x-zip", "text/xml", fmt.Sprintf("application/x-verif-race-%d", k), fmt.Sprintf("application/x-verif-race-alias-%d", k)}
				n := names[rng.Intn(len(names))]
				m := Lookup(n)
				if m != nil {
					if !m.Is(n) {
						report("Lookup(%q) returned %q which is not that type", n, m.String())
					}
					if strings.HasPrefix(n, "application/x-verif-race") && (m.Parent() == nil || m.Extension() != ".vr") {
						report("Lookup(%q): half-built node (parent %v ext %q)", n, m.Parent(), m.Extension())
					}
				}
			case "limit":
				SetLimit(limits[rng.Intn(len(limits))])
				time.Sleep(time.Microsecond * time.Duration(rng.Intn(50)))
			case "extend":
				k := atomic.AddInt64(&extCount, 1) - 1
				if k > 400 {
					time.Sleep(time.Millisecond)
					atomic.AddInt64(&extCount, -1)
					continue
				}
				marker := []byte(fmt.Sprintf("VERIF-EXT-%d ", k))
				det := func(raw []byte, _ uint32) bool { return bytes.HasPrefix(raw, marker) }
				// caller-owned alias slices with spare capacity
				al := make([]string, 1, []int{1, 2, 8}[rng.Intn(3)])
				al[0] = fmt.Sprintf("application/x-verif-race-alias-%d", k)
				name := fmt.Sprintf("application/x-verif-race-%d", k)
				if rng.Intn(3) == 0 {
					// one alias slice, owned by the caller, handed to many concurrent Extend calls (and read by
					// the caller meanwhile); its names are not in canonical form
					al = vfSharedAliases
					_ = len(vfSharedAliases[0]) + len(vfSharedAliases[1])
				}
				if rng.Intn(2) == 0 {
					Extend(det, name, ".vr", al...)
					registered.Store(name, true)
				} else if p := Lookup([]string{"text/plain", "application/zip", "application/json"}[rng.Intn(3)]); p != nil {
					p.Extend(det, name, ".vr", al...)
					registered.Store(name, true)
				}
				time.Sleep(time.Microsecond * time.Duration(rng.Intn(200)))
			}
		}
	}
	roles := []string{"detect", "detect", "detect", "lookup", "lookup", "lookup", "limit", "limit", "extend", "extend", "extend"}
	// the readers first: the very first Extend of the process must find detections and lookups in flight (a lock
	// that is only taken "once the tree can change" is then seen by the race detector)
	for i, r := range roles {
		if r != "extend" {
			wg.Add(1)
			go worker(i, r)
		}
	}
	time.Sleep(100 * time.Millisecond)
	for i, r := range roles {
		if r == "extend" {
			wg.Add(1)
			go worker(i, r)
		}
	}
	time.Sleep(time.Duration(secs) * time.Second)
	// burst: several goroutines extend the same parents back to back, released together, while the
	// detect / lookup workers keep the read lock busy — a read-copy-then-store Extend loses insertions here
	{
		var bw sync.WaitGroup
		gate := make(chan struct{})
		for w := 0; w < 8; w++ {
			bw.Add(1)
			go func(w int) {
				defer bw.Done()
				<-gate
				for j := 0; j < 40; j++ {
					name := fmt.Sprintf("application/x-verif-race-burst-%d-%d", w, j)
					marker := []byte("VERIF-BURST-" + name)
					det := func(raw []byte, _ uint32) bool { return bytes.HasPrefix(raw, marker) }
					if j%2 == 0 {
						Extend(det, name, ".vr")
					} else if p := Lookup("text/plain"); p != nil {
						p.Extend(det, name, ".vr")
					}
					registered.Store(name, true)
				}
			}(w)
		}
		close(gate)
		bw.Wait()
	}
	close(stop)
	wg.Wait()
	// every extension that was registered must still be there
	registered.Range(func(k, _ any) bool {
		if Lookup(k.(string)) == nil {
			report("extension %s registered concurrently is gone", k.(string))
		}
		return true
	})
	msg := "-"
	if v := firstMsg.Load(); v != nil {
		msg = strings.ReplaceAll(v.(string), " ", "_")
	}
	fmt.Fprintf(g.out, "race procs=%d secs=%d exts=%d => %d %s\n", procs, secs, atomic.LoadInt64(&extCount), atomic.LoadInt64(&violations), msg)
}
