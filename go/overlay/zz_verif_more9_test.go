//go:build verif

package mimetype

import (
	"fmt"
	"strconv"
	"strings"

	"github.com/gabriel-vasile/mimetype/internal/magic"
)

func vfEarlierTextSibling(hdr []byte, lim uint32, target string) string {
	mu.RLock()
	defer mu.RUnlock()
	for _, c := range root.children {
		if c.mime == "text/plain" {
			for _, t := range c.children {
				if t.mime == target {
					return "n"
				}
				if vfSafeDet(t.detector, hdr, lim) == "T" {
					return "y"
				}
			}
			return "n"
		}
		if vfSafeDet(c.detector, hdr, lim) == "T" {
			return "y"
		}
	}
	return "n"
}

func vfExecMore9(f []string, op string) (string, bool) {
	switch f[0] {
	case "lines": // lines kind hex lim
		data := vfUnhex(f[2])
		lim64, _ := strconv.ParseUint(f[3], 10, 32)
		lim := uint32(lim64)
		hdr, _ := vfExact(vfHeader(data, lim))
		SetLimit(lim)
		in, _ := vfExact(data)
		m := Detect(in)
		return fmt.Sprintf("%s => %s%s%s %s %s%s%s", op,
			vfSafeDet(magic.NdJSON, hdr, lim)[:1], vfSafeDet(magic.Csv, hdr, lim)[:1], vfSafeDet(magic.Tsv, hdr, lim)[:1],
			vfChain(m),
			vfEarlierTextSibling(hdr, lim, "application/x-ndjson"), vfEarlierTextSibling(hdr, lim, "text/csv"), vfEarlierTextSibling(hdr, lim, "text/tab-separated-values")), true
	case "dll": // dll hex lim : dropLastLine
		data, _ := vfExact(vfUnhex(f[1]))
		lim64, _ := strconv.ParseUint(f[2], 10, 32)
		return fmt.Sprintf("%s => %s", op, vfHex(magic.VerifDropLastLine(data, uint32(lim64)))), true
	}
	return vfExecMore10(f, op)
}

func (g *vfGen) runMore9(slice string) bool {
	switch slice {
	case "C13":
		g.genC13()
	default:
		return g.runMore10(slice)
	}
	return true
}

func (g *vfGen) cell() string {
	n := 1 + g.intn(8)
	b := make([]byte, n)
	for i := range b {
		b[i] = "abcdefghijklmnopqrstuvwxyz0123456789 .-_"[g.intn(40)]
	}
	return string(b)
}

func (g *vfGen) table(delim string, cols, rows int, nl string, ragged bool) string {
	var sb strings.Builder
	bad := -1
	if ragged {
		bad = 1 + g.intn(rows-1)
	}
	for r := 0; r < rows; r++ {
		c := cols
		if r == bad {
			if g.intn(2) == 0 {
				c = cols + 1
			} else {
				c = cols - 1
			}
		}
		var cells []string
		for i := 0; i < c; i++ {
			cells = append(cells, g.cell())
		}
		sb.WriteString(strings.Join(cells, delim))
		sb.WriteString(nl)
	}
	return sb.String()
}

// rectangular table in which cells — the first and the last of a row included — may be empty
func (g *vfGen) tableEmptyCells(delim string, cols, rows int, nl string) string {
	var sb strings.Builder
	for r := 0; r < rows; r++ {
		var cells []string
		for i := 0; i < cols; i++ {
			c := g.cell()
			if g.intn(3) == 0 {
				c = ""
			}
			cells = append(cells, c)
		}
		switch g.intn(4) {
		case 0:
			cells[0] = ""
		case 1:
			cells[cols-1] = ""
		}
		if strings.Join(cells, "") == "" {
			cells[cols/2] = "x"
		}
		sb.WriteString(strings.Join(cells, delim))
		sb.WriteString(nl)
	}
	return sb.String()
}

func (g *vfGen) genC13() {
	emitCuts := func(kind, s string, secondLineEnd int) {
		b := []byte(s)
		g.emit(vfOp("lines", kind, b, 0))
		g.emit(vfOp("lines", kind, b, len(b)+1))
		for l := secondLineEnd; l <= len(b)+1; l++ {
			if g.thorough || l < secondLineEnd+12 || l > len(b)-3 || g.intn(6) == 0 {
				g.emit(vfOp("lines", kind, b, l))
				g.emit(vfOp("dll", b, l))
			}
		}
	}
	endOfLine2 := func(s string) int {
		i := strings.Index(s, "\n")
		j := strings.Index(s[i+1:], "\n")
		return i + 1 + j + 1
	}
	n := g.pick(60, 1500)
	for i := 0; i < n; i++ {
		nl := []string{"\n", "\r\n"}[g.intn(2)]
		// CSV / TSV tables
		delim := []string{",", "\t"}[g.intn(2)]
		kind := "csv"
		if delim == "\t" {
			kind = "tsv"
		}
		cols, rows := 2+g.intn(4), 3+g.intn(5)
		t := g.table(delim, cols, rows, nl, false)
		if g.intn(3) == 0 {
			t = "# a comment line" + nl + t
			emitCuts(kind+"-ok", t, endOfLine2(t[len("# a comment line"+nl):])+len("# a comment line"+nl))
		} else {
			emitCuts(kind+"-ok", t, endOfLine2(t))
		}
		te := g.tableEmptyCells(delim, cols, rows, nl)
		emitCuts(kind+"-ok", te, endOfLine2(te))
		r := g.table(delim, cols, rows, nl, true)
		g.emit(vfOp("lines", kind+"-bad", []byte(r), 0))
		g.emit(vfOp("lines", kind+"-bad", []byte(r), len(r)))
		one := g.table(delim, 1, rows, nl, false)
		g.emit(vfOp("lines", kind+"-one", []byte(one), 0))
		// NDJSON streams
		var lines []string
		k := 3 + g.intn(4)
		for j := 0; j < k; j++ {
			switch g.intn(5) {
			case 0:
				lines = append(lines, g.jvalue(1))
			case 1:
				lines = append(lines, "")
			default:
				if g.intn(2) == 0 {
					lines = append(lines, g.jobject(1))
				} else {
					lines = append(lines, g.jarray(1))
				}
			}
		}
		for j := range lines {
			lines[j] = strings.NewReplacer("\n", " ", "\r", " ").Replace(lines[j])
		}
		s := strings.Join(lines, nl) + nl
		emitCuts("nd-ok", s, endOfLine2(s))
		// one damaged line
		d := append([]string{}, lines...)
		j := g.intn(len(d))
		switch g.intn(6) {
		case 4:
			d[j] = []string{"{", "[", "\"", " {", "[ "}[g.intn(5)]
		case 5:
			d[j] = []string{"tru", "-", "1e", "nul"}[g.intn(4)]
		case 0:
			d[j] = `{"a":`
		case 1:
			d[j] = `[1,2`
		case 2:
			d[j] = d[j] + " x"
		default:
			d[j] = `{"a" 1}`
		}
		ds := strings.Join(d, nl) + nl
		g.emit(vfOp("lines", "nd-bad", []byte(ds), 0))
		g.emit(vfOp("lines", "nd-bad", []byte(ds), len(ds)))
		g.emit(vfOp("lines", "nd-bad", []byte(ds), len(ds)+5))
	}
	// records longer than 64 KiB (limit 0): in front, and followed by a damaged line
	big := `{"k":"` + strings.Repeat("x", 70000) + `"}`
	g.emit(vfOp("lines", "nd-ok", []byte(big+"\n{\"a\":1}\n[1,2]\n"), 0))
	g.emit(vfOp("lines", "nd-ok", []byte("{\"a\":1}\n"+big+"\n[1,2]\n"), 0))
	g.emit(vfOp("lines", "nd-bad", []byte("{\"a\":1}\n[1]\n"+big+"\n{\"broken\":\n"), 0))
	g.emit(vfOp("lines", "nd-bad", []byte("{\"id\":1}\n{\"id\":2}\n{\n{\"id\":4}\n"), 0))
	for _, w := range []string{"{\"a\":\n{\"b\":\n", "1\n2\n", "{}\n", "{}\n{}", "{}\n{}\n", "[\n]\n", "true\ntrue\n{\"a\":1}\n", "  \n{}\n"} {
		for _, l := range []int{0, len(w), len(w) + 1} {
			g.emit(vfOp("lines", "any", []byte(w), l))
		}
	}
}
