//go:build verif

package mimetype

func (g *vfGen) runMore9(slice string) bool { return false }

func vfExecMore9(f []string, op string) (string, bool) { return "", false }
