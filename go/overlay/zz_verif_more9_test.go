//go:build verif

package mimetype

import (
	"fmt"
	"strconv"
	"strings"

	"github.com/gabriel-vasile/mimetype/internal/magic"
)

func vfEarlierTextSibling(hdr []byte, lim uint32, target string) string {
	mu.RLock()
	defer mu.RUnlock()
	for _, c := range root.children {
		if c.mime == "text/plain" {
			for _, t := range c.children {
				if t.mime == target {
					return "n"
				}
				if vfSafeDet(t.detector, hdr, lim) == "T" {
					return "y"
				}
			}
			return "n"
		}
		if vfSafeDet(c.detector, hdr, lim) == "T" {
			return "y"
		}
	}
	return "n"
}

func vfExecMore9(f []string, op string) (string, bool) {
	switch f[0] {
	case "lines": // lines kind hex lim
		data := vfUnhex(f[2])
		lim64, _ := strconv.ParseUint(f[3], 10, 32)
		lim := uint32(lim64)
		hdr, _ := vfExact(vfHeader(data, lim))
		SetLimit(lim)
		in, _ := vfExact(data)
		m := Detect(in)
		return fmt.Sprintf("%s => %s%s%s %s %s%s%s", op,
			vfSafeDet(magic.NdJSON, hdr, lim)[:1], vfSafeDet(magic.Csv, hdr, lim)[:1], vfSafeDet(magic.Tsv, hdr, lim)[:1],
			vfChain(m),
			vfEarlierTextSibling(hdr, lim, "application/x-ndjson"), vfEarlierTextSibling(hdr, lim, "text/csv"), vfEarlierTextSibling(hdr, lim, "text/tab-separated-values")), true
	case "dll": // dll hex lim : dropLastLine
		data, _ := vfExact(vfUnhex(f[1]))
		lim64, _ := strconv.ParseUint(f[2], 10, 32)
		return fmt.Sprintf("%s => %s", op, vfHex(magic.VerifDropLastLine(data, uint32(lim64)))), true
	}
	return vfExecMore10(f, op)
}

func (g *vfGen) runMore9(slice string) bool {
	switch slice {
	case "C13":
		g.genC13()
	default:
		return g.runMore10(slice)
	}
	return true
}

func (g *vfGen) cell() string {
	n := 1 + g.intn(8)
	b := make([]byte, n)
	for i := range b {
		b[i] = "abcdefghijklmnopqrstuvwxyz0123456789 .-_"[g.intn(40)]
	}
	return string(b)
}

func (g *vfGen) table(delim string, cols, rows int, nl string, ragged bool) string {
	var sb strings.Builder
	bad := -1
	if ragged {
		bad = 1 + g.intn(rows-1)
	}
	for r := 0; r < rows; r++ {
		c := cols
		if r == bad {
			if g.intn(2) == 0 {
				c = cols + 1
			} else {
				c = cols - 1
			}
		}
		var cells []string
		for i := 0; i < c; i++ {
			cells = append(cells, g.cell())
		}
		sb.WriteString(strings.Join(cells, delim))
		sb.WriteString(nl)
	}
	return sb.String()
}

// rectangular table in which cells — the first and the last of a row included — may be empty
func (g *vfGen) tableEmptyCells(delim string, cols, rows int, nl string) string {
	var sb strings.Builder
	for r := 0; r < rows; r++ {
		var cells []string
		for i := 0; i < cols; i++ {
			c := g.cell()
			if g.intn(3) == 0 {
				c = ""
			}
			cells = append(cells, c)
		}
		switch g.intn(4) {
		case 0:
			cells[0] = ""
		case 1:
			cells[cols-1] = ""
		}
		if strings.Join(cells, "") == "" {
			cells[cols/2] = "x"
		}
		sb.WriteString(strings.Join(cells, delim))
		sb.WriteString(nl)
	}
	return sb.String()
}

func (g *vfGen) genC13() {
	emitCuts := func(kind, s string, secondLineEnd int) {
		b := []byte(s)
		g.emit(vfOp("lines", kind, b, 0))
		g.emit(vfOp("lines", kind, b, len(b)+1))
		for l := secondLineEnd; l <= len(b)+1; l++ {
			if g.thorough || l < secondLineEnd+12 || l > len(b)-3 || g.intn(6) == 0 {
				g.emit(vfOp("lines", kind, b, l))
				g.emit(vfOp("dll", b, l))
			}
		}
	}
	endOfLine2 := func(s string) int {
		i := strings.Index(s, "\n")
		j := strings.Index(s[i+1:], "\n")
		return i + 1 + j + 1
	}
	n := g.pick(60, 1500)
	for i := 0; i < n; i++ {
		nl := []string{"\n", "\r\n"}[g.intn(2)]
		// CSV / TSV tables
		delim := []string{",", "\t"}[g.intn(2)]
		kind := "csv"
		if delim == "\t" {
			kind = "tsv"
		}
		cols, rows := 2+g.intn(4), 3+g.intn(5)
		t := g.table(delim, cols, rows, nl, false)
		if g.intn(3) == 0 {
			t = "# a comment line" + nl + t
			emitCuts(kind+"-ok", t, endOfLine2(t[len("# a comment line"+nl):])+len("# a comment line"+nl))
		} else {
			emitCuts(kind+"-ok", t, endOfLine2(t))
		}
		te := g.tableEmptyCells(delim, cols, rows, nl)
		emitCuts(kind+"-ok", te, endOfLine2(te))
		r := g.table(delim, cols, rows, nl, true)
		g.emit(vfOp("lines", kind+"-bad", []byte(r), 0))
		g.emit(vfOp("lines", kind+"-bad", []byte(r), len(r)))
		if i%3 == 0 {
			// a ragged table at every limit (a limit right behind the line break of the ragged row included)
			for l := 1; l <= len(r)+1; l++ {
				g.emit(vfOp("lines", "any", []byte(r), l))
			}
		}
		one := g.table(delim, 1, rows, nl, false)
		g.emit(vfOp("lines", kind+"-one", []byte(one), 0))
		// a first line with fewer fields than the rest (spreadsheet hint lines, titles): ragged like any other
		for _, first := range []string{"sep=" + delim, "sep=" + delim + " ", "SEP=" + delim, "sep=;", "title", "\"sep=" + delim + "\"", "#!csv", "x" + delim + "y" + delim + "z" + delim + "w" + delim + "v" + delim + "u" + delim + "t"} {
			h := first + nl + t
			g.emit(vfOp("lines", "any", []byte(h), 0))
			g.emit(vfOp("lines", "any", []byte(h), len(h)))
		}
		// NDJSON streams
		var lines []string
		k := 3 + g.intn(4)
		for j := 0; j < k; j++ {
			switch g.intn(5) {
			case 0:
				lines = append(lines, g.jvalue(1))
			case 1:
				lines = append(lines, "")
			default:
				if g.intn(2) == 0 {
					lines = append(lines, g.jobject(1))
				} else {
					lines = append(lines, g.jarray(1))
				}
			}
		}
		for j := range lines {
			lines[j] = strings.NewReplacer("\n", " ", "\r", " ").Replace(lines[j])
		}
		s := strings.Join(lines, nl) + nl
		emitCuts("nd-ok", s, endOfLine2(s))
		// one damaged line
		d := append([]string{}, lines...)
		j := g.intn(len(d))
		switch g.intn(7) {
		case 6:
			d[j] = []string{"hello world", "# comment", "}", ",", "]", "x", ":", "// c", "=1", "'a'", "NaN", "undefined",
				"{\"id\":1}\u00a0", "\u00a0", "\x0c", "{\"id\":1}\x0c", "\u2028", "\u0085[1]", "[1]\u3000", "\x0b{}"}[g.intn(20)]
		case 4:
			d[j] = []string{"{", "[", "\"", " {", "[ "}[g.intn(5)]
		case 5:
			d[j] = []string{"tru", "-", "1e", "nul"}[g.intn(4)]
		case 0:
			d[j] = `{"a":`
		case 1:
			d[j] = `[1,2`
		case 2:
			d[j] = d[j] + " x"
		default:
			d[j] = `{"a" 1}`
		}
		ds := strings.Join(d, nl) + nl
		g.emit(vfOp("lines", "nd-bad", []byte(ds), 0))
		g.emit(vfOp("lines", "nd-bad", []byte(ds), len(ds)))
		g.emit(vfOp("lines", "nd-bad", []byte(ds), len(ds)+5))
	}
	g.genCsvReader()
	// records longer than 64 KiB (limit 0): in front, and followed by a damaged line
	big := `{"k":"` + strings.Repeat("x", 70000) + `"}`
	g.emit(vfOp("lines", "nd-ok", []byte(big+"\n{\"a\":1}\n[1,2]\n"), 0))
	g.emit(vfOp("lines", "nd-ok", []byte("{\"a\":1}\n"+big+"\n[1,2]\n"), 0))
	g.emit(vfOp("lines", "nd-bad", []byte("{\"a\":1}\n[1]\n"+big+"\n{\"broken\":\n"), 0))
	g.emit(vfOp("lines", "nd-bad", []byte("{\"id\":1}\n{\"id\":2}\n{\n{\"id\":4}\n"), 0))
	for _, w := range []string{"{\"a\":\n{\"b\":\n", "1\n2\n", "{}\n", "{}\n{}", "{}\n{}\n", "[\n]\n", "true\ntrue\n{\"a\":1}\n", "  \n{}\n"} {
		for _, l := range []int{0, len(w), len(w) + 1} {
			g.emit(vfOp("lines", "any", []byte(w), l))
		}
	}
}


// inputs aimed at the model of encoding/csv (Model/Csv.lean): quoted and lazily quoted cells, cells spanning
// lines, comments, CR handling, lines longer than the 4096-byte bufio buffer, byte-order marks in front of a
// table; exhaustive strings over a 7-symbol alphabet
func (g *vfGen) genCsvReader() {
	both := func(kind string, b []byte, lims ...int) {
		for _, l := range lims {
			g.emit(vfOp("lines", kind, b, l))
		}
	}
	alpha := []byte{'a', ',', '"', '\n', '\r', '#', '\t'}
	maxLen := g.pick(5, 6)
	var rec func(cur []byte)
	rec = func(cur []byte) {
		both("any", cur, 0, len(cur))
		if len(cur) == maxLen {
			return
		}
		for _, a := range alpha {
			rec(append(append([]byte{}, cur...), a))
		}
	}
	rec(nil)
	qcell := func() string {
		switch g.intn(8) {
		case 0:
			return "\"" + strings.ReplaceAll(g.cell(), "\"", "\"\"") + "\""
		case 1:
			return "\"multi\nline, cell\""
		case 2:
			return "\"has \"\"quotes\"\" and, delim\tx\""
		case 3:
			return "la\"zy" // bare quote inside an unquoted field
		case 4:
			return "\"lazy\"x\"" // quote followed by text inside a quoted field
		case 5:
			return "\"# not a comment\n# still the cell\""
		case 6:
			return ""
		}
		return g.cell()
	}
	n := g.pick(150, 4000)
	for i := 0; i < n; i++ {
		nl := []string{"\n", "\r\n"}[g.intn(2)]
		delim := []string{",", "\t"}[g.intn(2)]
		cols, rows := 2+g.intn(4), 2+g.intn(5)
		var sb strings.Builder
		for r := 0; r < rows; r++ {
			if g.intn(9) == 0 {
				sb.WriteString("# comment" + nl)
			}
			if g.intn(12) == 0 {
				sb.WriteString(nl)
			}
			c := cols
			if g.intn(10) == 0 {
				c += 1 - 2*g.intn(2)
			}
			for k := 0; k < c; k++ {
				if k > 0 {
					sb.WriteString(delim)
				}
				sb.WriteString(qcell())
			}
			sb.WriteString(nl)
		}
		t := sb.String()
		switch g.intn(10) {
		case 0:
			t = strings.TrimRight(t, "\r\n")
		case 1:
			t = t + "\"unterminated" + delim + "x" + nl + "y" + delim + "z" + nl
		case 2:
			t = strings.Replace(t, nl, "\r", 1) // a bare CR is not a line break
		case 3:
			t = t + "\r"
		}
		b := []byte(t)
		lims := []int{0, len(b), len(b) + 1, 1 + g.intn(len(b)+1), 1 + g.intn(len(b)+1)}
		both("any", b, lims...)
		// a byte-order mark in front of a plain table, cut at every limit past line 2
		if i%5 == 0 {
			p := g.table(delim, cols, rows+1, nl, false)
			for _, bom := range [][]byte{{0xEF, 0xBB, 0xBF}, {0xFF, 0xFE}, {0xFE, 0xFF}} {
				bt := append(append([]byte{}, bom...), p...)
				i1 := strings.Index(p, "\n")
				i2 := i1 + 1 + strings.Index(p[i1+1:], "\n") + 1 + len(bom)
				kind := "csv-ok"
				if delim == "\t" {
					kind = "tsv-ok"
				}
				for l := i2; l <= len(bt)+1; l++ {
					if g.thorough || l < i2+10 || l > len(bt)-2 || g.intn(4) == 0 {
						g.emit(vfOp("lines", kind, bt, l))
					}
				}
				g.emit(vfOp("lines", kind, bt, 0))
			}
		}
	}
	// lines longer than the pooled bufio.Reader's buffer
	for _, w := range []int{4090, 4096, 4097, 8192, 9000} {
		long := strings.Repeat("x", w)
		both("any", []byte("a,b\n"+long+",c\nd,e\n"), 0, 3072, w+10)
		both("any", []byte(long+","+long+"\n1,2\n"), 0, 2*w+3)
		both("any", []byte("a,\""+long+"\nstill,inside\"\nc,d\n"), 0, w+20)
	}
}
