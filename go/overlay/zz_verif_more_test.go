//go:build verif

package mimetype

import (
	"bytes"
	"fmt"
	"strconv"
	"strings"

	"github.com/gabriel-vasile/mimetype/internal/magic"
)

func vfDetectorByName(name string) magic.Detector { return magic.VerifDetectors[name] }

// ---------- tree snapshots (Extend is global state) ----------

type vfSnap struct {
	nodes    []*MIME
	children [][]*MIME
}

var vfBuiltin *vfSnap

func vfSnapshot() *vfSnap {
	s := &vfSnap{}
	var rec func(m *MIME)
	rec = func(m *MIME) {
		s.nodes = append(s.nodes, m)
		s.children = append(s.children, append([]*MIME{}, m.children...))
		for _, c := range m.children {
			rec(c)
		}
	}
	rec(root)
	return s
}

func (s *vfSnap) restore() {
	mu.Lock()
	defer mu.Unlock()
	for i, n := range s.nodes {
		n.children = append([]*MIME{}, s.children[i]...)
	}
}

func vfNodeAt(path string) *MIME {
	m := root
	if path == "r" {
		return m
	}
	for _, p := range strings.Split(path, ".") {
		i, _ := strconv.Atoi(p)
		if i < 0 || i >= len(m.children) {
			return nil
		}
		m = m.children[i]
	}
	return m
}

// predicate families the driver can also evaluate
func vfPred(id string) func([]byte, uint32) bool {
	switch {
	case id == "always":
		return func([]byte, uint32) bool { return true }
	case id == "never":
		return func([]byte, uint32) bool { return false }
	case strings.HasPrefix(id, "prefix-"):
		p := vfUnhex(id[7:])
		return func(raw []byte, _ uint32) bool { return bytes.HasPrefix(raw, p) }
	case strings.HasPrefix(id, "contains-"):
		p := vfUnhex(id[9:])
		return func(raw []byte, _ uint32) bool { return bytes.Contains(raw, p) }
	case strings.HasPrefix(id, "lenGt-"):
		k, _ := strconv.Atoi(id[6:])
		return func(raw []byte, _ uint32) bool { return len(raw) > k }
	}
	return nil
}

// script: call;call;...   call = path:pred:mimehex:exthex:alias+alias (aliases hex, "~" none)
func vfApplyScript(script string) error {
	if script == "~" {
		return nil
	}
	for _, c := range strings.Split(script, ";") {
		f := strings.Split(c, ":")
		if len(f) != 5 {
			return fmt.Errorf("bad call %q", c)
		}
		n := vfNodeAt(f[0])
		pred := vfPred(f[1])
		if n == nil || pred == nil {
			return fmt.Errorf("bad call %q", c)
		}
		var aliases []string
		if f[4] != "~" {
			for _, a := range strings.Split(f[4], "+") {
				aliases = append(aliases, string(vfUnhex(a)))
			}
		}
		if f[0] == "r" {
			Extend(pred, string(vfUnhex(f[2])), string(vfUnhex(f[3])), aliases...)
		} else {
			n.Extend(pred, string(vfUnhex(f[2])), string(vfUnhex(f[3])), aliases...)
		}
	}
	return nil
}

func vfMIMEStr(m *MIME) string {
	if m == nil {
		return "NIL"
	}
	return vfHex([]byte(m.mime)) + "|" + vfHex([]byte(m.extension))
}

func vfExecMore(f []string, op string) (string, bool) {
	switch f[0] {
	case "xwalk": // xwalk script hex lim
		if vfBuiltin == nil {
			vfBuiltin = vfSnapshot()
		}
		vfBuiltin.restore()
		defer vfBuiltin.restore()
		data := vfUnhex(f[2])
		lim64, _ := strconv.ParseUint(f[3], 10, 32)
		lim := uint32(lim64)
		SetLimit(lim)
		before := Detect(data)
		beforeStr := vfChain(before) + " " + before.String()
		if err := vfApplyScript(f[1]); err != nil {
			return op + " => BADSCRIPT", true
		}
		in, buf := vfExact(data)
		m := Detect(in)
		res := vfChain(m) + " " + vfHex([]byte(m.String()))
		if !buf.intact() {
			res += " MODIFIED"
		}
		if vfChain(before)+" "+before.String() != beforeStr {
			res += " EARLIER-RESULT-CHANGED"
		}
		hdr, _ := vfExact(vfHeader(data, lim))
		var vb strings.Builder
		for _, n := range root.flatten() {
			vb.WriteString(vfSafeDet(n.detector, hdr, lim)[:1])
		}
		return fmt.Sprintf("xwalk %s %s %d %s %s => %s", f[1], f[2], lim, strings.ReplaceAll(vfDumpTree(), " ", "_"), vb.String(), res), true
	case "xlookup": // xlookup script namehex
		if vfBuiltin == nil {
			vfBuiltin = vfSnapshot()
		}
		vfBuiltin.restore()
		defer vfBuiltin.restore()
		// the same name is looked up before the registrations too (a miss, or the older node): what an
		// earlier Lookup saw must not influence the answer after Extend
		_ = Lookup(string(vfUnhex(f[2])))
		if err := vfApplyScript(f[1]); err != nil {
			return op + " => BADSCRIPT", true
		}
		m := Lookup(string(vfUnhex(f[2])))
		var par *MIME
		if m != nil {
			par = m.Parent()
		}
		return fmt.Sprintf("xlookup %s %s => %s %s", f[1], f[2], vfMIMEStr(m), vfMIMEStr(par)), true
	}
	return vfExecMore2(f, op)
}

// ---------- generators ----------

func (g *vfGen) runMore(slice string) bool {
	switch slice {
	case "C03":
		g.genC03()
	case "C14":
		g.genC14()
	default:
		return g.runMore2(slice)
	}
	return true
}

func (g *vfGen) overlayInputs() [][]byte {
	corpus := vfCorpus()
	var small [][]byte
	for _, c := range corpus {
		if len(c) <= 4096 {
			small = append(small, c)
		}
	}
	var out [][]byte
	n := g.pick(300, 6000)
	for i := 0; i < n; i++ {
		a := small[g.intn(len(small))]
		b := small[g.intn(len(small))]
		switch g.intn(4) {
		case 0: // a then b
			out = append(out, append(append([]byte{}, a...), b...))
		case 1: // b written over the tail of a padded header
			m := append([]byte{}, a...)
			for len(m) < len(b) {
				m = append(m, 0)
			}
			off := g.intn(len(m) + 1)
			m = append(m[:off], b...)
			out = append(out, m)
		case 2: // byte-wise merge: take b where a is zero
			m := append([]byte{}, a...)
			for i := range b {
				if i >= len(m) {
					m = append(m, b[i])
				} else if m[i] == 0 {
					m[i] = b[i]
				}
			}
			out = append(out, m)
		default: // text carrier with a embedded
			t := g.textBytes(g.intn(40))
			out = append(out, append(t, a...))
		}
	}
	return out
}

func (g *vfGen) randomScript(maxCalls int, inputs [][]byte) string {
	n := 1 + g.intn(maxCalls)
	// paths are valid at the time of the call: track child counts of a shadow tree
	type sh struct{ kids []*sh }
	var build func(m *MIME) *sh
	build = func(m *MIME) *sh {
		s := &sh{}
		for _, c := range m.children {
			s.kids = append(s.kids, build(c))
		}
		return s
	}
	shadow := build(root)
	var calls []string
	for i := 0; i < n; i++ {
		// choose a node by random descent
		path := []string{}
		cur := shadow
		depth := g.intn(5)
		for d := 0; d < depth && len(cur.kids) > 0; d++ {
			k := g.intn(len(cur.kids))
			if g.intn(3) == 0 {
				k = 0 // favour freshly added extensions (they sit in front)
			}
			path = append(path, strconv.Itoa(k))
			cur = cur.kids[k]
		}
		p := "r"
		if len(path) > 0 {
			p = strings.Join(path, ".")
		}
		var pred string
		switch g.intn(6) {
		case 0:
			pred = "always"
		case 1:
			pred = "never"
		case 2:
			pred = fmt.Sprintf("lenGt-%d", g.intn(64))
		case 3:
			in := inputs[g.intn(len(inputs))]
			k := g.intn(len(in) + 1)
			if k > 6 {
				k = 6
			}
			pred = "prefix-" + vfHex(in[:k])
		case 4:
			in := inputs[g.intn(len(inputs))]
			if len(in) > 2 {
				o := g.intn(len(in) - 1)
				pred = "contains-" + vfHex(in[o:o+2])
			} else {
				pred = "always"
			}
		default:
			pred = "prefix-" + vfHex(g.bytes(1))
		}
		mime := fmt.Sprintf("application/x-verif-%d-%d", i, g.intn(1000))
		if g.intn(8) == 0 {
			mime = "text/plain" // extension re-using a built-in name
		}
		alias := "~"
		if g.intn(2) == 0 {
			alias = vfHex([]byte(fmt.Sprintf("application/x-verif-alias-%d", i)))
			if g.intn(2) == 0 {
				alias += "+" + vfHex([]byte(fmt.Sprintf("x-verif/second-%d", i)))
			}
		}
		calls = append(calls, fmt.Sprintf("%s:%s:%s:%s:%s", p, pred, vfHex([]byte(mime)), vfHex([]byte(fmt.Sprintf(".v%d", i))), alias))
		cur.kids = append([]*sh{{}}, cur.kids...)
	}
	return strings.Join(calls, ";")
}

// pathOf returns the child-index path walked by the real detectors for `in`.
func vfPathOf(in []byte, lim uint32) []int {
	hdr := vfHeader(in, lim)
	var path []int
	m := root
	for {
		next := -1
		for i, c := range m.children {
			if vfSafeDet(c.detector, hdr, lim) == "T" {
				next = i
				break
			}
		}
		if next < 0 {
			return path
		}
		path = append(path, next)
		m = m.children[next]
	}
}

// directed scripts: extend the nodes on the path an input actually walks (every depth),
// with detectors that accept / reject that input, singly and stacked.
func (g *vfGen) directedExt(inputs [][]byte, n int) {
	specials := [][]byte{{}, {0}, []byte("a"), []byte(" "), []byte("PK\x03\x04"), []byte("{}"), []byte("<?xml version=\"1.0\"?><rss")}
	for i := 0; i < n; i++ {
		in := inputs[g.intn(len(inputs))]
		if i < 40*len(specials) {
			in = specials[i%len(specials)]
		}
		lim := []uint32{0, 3072}[g.intn(2)]
		path := vfPathOf(in, lim)
		d := g.intn(len(path) + 1)
		p := "r"
		if d > 0 {
			var ps []string
			for _, k := range path[:d] {
				ps = append(ps, strconv.Itoa(k))
			}
			p = strings.Join(ps, ".")
		}
		preds := []string{"always", "never", fmt.Sprintf("lenGt-%d", len(in)), "lenGt-0"}
		if len(in) > 0 {
			preds = append(preds, "prefix-"+vfHex(in[:1+g.intn(min(len(in), 4))]))
		}
		var calls []string
		k := 1 + g.intn(3)
		for j := 0; j < k; j++ {
			pr := preds[g.intn(len(preds))]
			calls = append(calls, fmt.Sprintf("%s:%s:%s:%s:~", p, pr, vfHex([]byte(fmt.Sprintf("application/x-verif-d%d", j))), vfHex([]byte(".d"))))
			if g.intn(3) == 0 {
				// extend the extension just added (it is child 0 of p)
				cp := "0"
				if p != "r" {
					cp = p + ".0"
				}
				calls = append(calls, fmt.Sprintf("%s:%s:%s:%s:~", cp, preds[g.intn(len(preds))], vfHex([]byte(fmt.Sprintf("application/x-verif-dd%d", j))), vfHex([]byte(".dd"))))
			}
		}
		g.emit(vfOp("xwalk", strings.Join(calls, ";"), in, lim))
	}
}

func (g *vfGen) genC03() {
	ins := g.overlayInputs()
	for _, in := range ins {
		lims := []uint32{0, 3072, uint32(1 + g.intn(len(in)+1))}
		g.emit(vfOp("walk", in, lims[g.intn(len(lims))]))
	}
	small := ins
	if len(small) > 200 {
		small = small[:200]
	}
	small = append(small, []byte{}, []byte{0}, []byte("a"))
	dirIn := append(vfCorpus(), []byte{}, []byte{0}, []byte("a"), []byte(" "))
	g.directedExt(dirIn, g.pick(1200, 20000))
	for i := 0; i < g.pick(150, 3000); i++ {
		sc := g.randomScript(6, small)
		in := small[g.intn(len(small))]
		g.emit(vfOp("xwalk", sc, in, []uint32{0, 3072, 64}[g.intn(3)]))
	}
	// a byte-order mark in front of every small sample and literal: the sub-formats of text/plain must be consulted
	// with the same header the root level saw
	boms := [][]byte{{0xEF, 0xBB, 0xBF}, {0xFF, 0xFE}, {0xFE, 0xFF}}
	bn := 0
	for _, c := range append(vfCorpus(), []byte(`{"a":[1,2,3]}`), []byte(`{"type":"Point"}`), []byte("{\\rtf1 x}"), []byte("BEGIN:VCARD\nVERSION:3.0\n"), []byte("BEGIN:VCALENDAR\n"),
		[]byte("#!/usr/bin/python\nprint(1)\n"), []byte("a,b\n1,2\n3,4\n"), []byte("{\"a\":1}\n{\"b\":2}\n"), []byte("WEBVTT\n\n"), []byte("%!PS-Adobe-3.0"), []byte("1\n00:00:01,000 --> 00:00:02,000\nx\n")) {
		if len(c) > 2048 {
			continue
		}
		for _, b := range boms[:1+bn%3] {
			in := append(append([]byte{}, b...), c...)
			g.emit(vfOp("walk", in, 0))
			g.emit(vfOp("walk", in, 3072))
			if len(in) > 8 {
				g.emit(vfOp("walk", in, len(in)-1))
			}
		}
		bn++
	}
	g.genResExt()
	g.genTrace()
	g.genLimFlip()
}

func (g *vfGen) genC14() {
	corpus := vfCorpus()
	var small [][]byte
	for _, c := range corpus {
		if len(c) <= 2048 {
			small = append(small, c)
		}
	}
	small = append(small, []byte{}, g.bytes(16), g.textBytes(30))
	g.directedExt(small, g.pick(1500, 30000))
	for i := 0; i < g.pick(400, 8000); i++ {
		sc := g.randomScript(12, small)
		for j := 0; j < 3; j++ {
			in := small[g.intn(len(small))]
			g.emit(vfOp("xwalk", sc, in, []uint32{0, 3072, 8}[g.intn(3)]))
		}
		// lookups of every registered extension name and alias, and of some built-ins
		for _, c := range strings.Split(sc, ";") {
			f := strings.Split(c, ":")
			g.emit(vfOp("xlookup", sc, f[2]))
			if f[4] != "~" {
				for _, a := range strings.Split(f[4], "+") {
					g.emit(vfOp("xlookup", sc, a))
				}
			}
		}
		g.emit(vfOp("xlookup", sc, []byte("application/zip")))
		g.emit(vfOp("xlookup", sc, []byte("application/x-zip")))
		g.emit(vfOp("xlookup", sc, []byte("no/such-type")))
	}
	g.emit(vfOp("xwalk", "~", []byte("plain"), 0))
	// chains of extensions, each registered below the previous one, deeper than any built-in path
	for _, depth := range []int{3, 7, 8, 9, 10, 12, 17, 40, 130} {
		for _, pred := range []string{"always", "prefix-" + vfHex([]byte("[Unit]")), "lenGt-3"} {
			var calls []string
			path := "r"
			for d := 0; d < depth; d++ {
				calls = append(calls, fmt.Sprintf("%s:%s:%s:%s:~", path, pred, vfHex([]byte(fmt.Sprintf("application/x-chain-%d", d))), vfHex([]byte(".c"))))
				if d == 0 {
					path = "0"
				} else {
					path += ".0"
				}
			}
			sc := strings.Join(calls, ";")
			g.emit(vfOp("xwalk", sc, []byte("[Unit]\nDescription=x\n"), 0))
			g.emit(vfOp("xwalk", sc, []byte("ab"), 0))
			g.emit(vfOp("xlookup", sc, []byte(fmt.Sprintf("application/x-chain-%d", depth-1))))
		}
	}
	// names are registered and looked up verbatim: upper case, parameters, surrounding blanks
	for _, parent := range []string{"r", "0"} {
		for _, nm := range []string{"text/x-Systemd-Unit", "Application/X-Upper", " text/x-lead", "text/x-trail ", "TEXT/X-ALLCAPS"} {
			al := "application/X-Systemd-Alias"
			sc := fmt.Sprintf("%s:prefix-%s:%s:%s:%s", parent, vfHex([]byte("[Unit]")), vfHex([]byte(nm)), vfHex([]byte(".unit")), vfHex([]byte(al)))
			g.emit(vfOp("xlookup", sc, []byte(nm)))
			g.emit(vfOp("xlookup", sc, []byte(al)))
			g.emit(vfOp("xlookup", sc, []byte("text/x-systemd-unit")))
			g.emit(vfOp("xwalk", sc, []byte("[Unit]\nDescription=x\n"), 0))
		}
	}
	g.genResExt()
}
