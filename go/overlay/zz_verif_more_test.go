//go:build verif

package mimetype

import (
	"github.com/gabriel-vasile/mimetype/internal/magic"
)

func vfDetectorByName(name string) magic.Detector { return magic.VerifDetectors[name] }

func (g *vfGen) runMore(slice string) bool { return false }

func vfExecMore(f []string, op string) (string, bool) { return "", false }
