//go:build verif

package charset

// Exports for the verification harness (overlay only).
func VerifFromMetaElement(s string) string { return fromMetaElement(s) }
func VerifXMLEncoding(s string) string     { return xmlEncoding(s) }
