//go:build verif

package mimetype

import (
	"encoding/binary"
	"fmt"
	"strings"
)

func vfExecMore2(f []string, op string) (string, bool) { return vfExecMore3(f, op) }

func (g *vfGen) runMore2(slice string) bool {
	switch slice {
	case "C01":
		g.genC01()
	default:
		return g.runMore3(slice)
	}
	return true
}

func le32(v uint32) []byte { b := make([]byte, 4); binary.LittleEndian.PutUint32(b, v); return b }

// crafted headers with attacker-controlled length / offset fields
func (g *vfGen) attackHeaders() [][]byte {
	var out [][]byte
	big := []uint32{0, 1, 2, 7, 8, 0x7f, 0x80, 0xff, 0x100, 0x1ff, 0x200, 0xfff, 0x1000, 0x7fffffff, 0x80000000, 0xfffffffe, 0xffffffff, 0xffffffcf, 0xffffffce, 0xffffffd0}
	// OLE compound files
	for _, total := range []int{511, 512, 513, 600, 1200, 4096 + 600, 8192 + 100} {
		for _, ver := range [][2]byte{{3, 0}, {4, 0}, {4, 1}} {
			secs := append([]uint32{}, big...)
			secs = append(secs, uint32(total/512), uint32(total/512-1), uint32(total/4096), uint32((total-96)/512), uint32((total-97)/512))
			for _, sec := range secs {
				b := make([]byte, total)
				copy(b, []byte{0xD0, 0xCF, 0x11, 0xE0, 0xA1, 0xB1, 0x1A, 0xE1})
				b[26], b[27] = ver[0], ver[1]
				copy(b[48:], le32(sec))
				out = append(out, b)
			}
		}
	}
	// zip local headers: compressed size field at 18
	names := []string{"[Content_Types].xml", "META-INF/MANIFEST.MF", "mimetypeapplication/epub+zip", "a", "word/document.xml", "docProps/app.xml"}
	for _, total := range []int{29, 30, 31, 49, 50, 80, 120, 300} {
		for _, cs := range append(append([]uint32{}, big...), uint32(total-49), uint32(total-48), uint32(total-50), uint32(total-79), uint32(total-30)) {
			for _, nm := range names {
				b := make([]byte, total)
				copy(b, "PK\x03\x04")
				if total > 22 {
					copy(b[18:], le32(cs))
				}
				if total > 30 {
					copy(b[30:], nm)
				}
				// plant further local headers
				for _, at := range []int{60, total - 35, total - 4} {
					if at > 34 && at+4 <= total {
						copy(b[at:], "PK\x03\x04")
						if at+30 < total {
							copy(b[at+30:], "word/")
						}
					}
				}
				out = append(out, b)
			}
		}
	}
	// CRX
	for _, total := range []int{15, 16, 17, 20, 40, 100} {
		for _, a := range big {
			for _, c := range []uint32{0, 1, uint32(total - 16), uint32(total - 20), 0xffffffff - a, 0xfffffff0 - a + uint32(total)} {
				b := make([]byte, total)
				copy(b, "Cr24")
				if total >= 16 {
					copy(b[8:], le32(a))
					copy(b[12:], le32(c))
				}
				if total >= 20 {
					copy(b[total-4:], "PK\x03\x04")
				}
				out = append(out, b)
			}
		}
	}
	// matroska: the 0x42 0x82 marker near the end / the 4096 boundary, every width byte class
	for _, total := range []int{6, 7, 8, 9, 12, 20, 4095, 4096, 4097, 4100, 4110} {
		for _, pos := range []int{4, 5, total - 2, total - 3, total - 4, total - 11, 4093, 4094, 4095} {
			for _, w := range []byte{0x80, 0x40, 0x20, 0x10, 0x08, 0x04, 0x02, 0x01, 0x00} {
				if pos < 1 || pos+2 > total {
					continue
				}
				b := make([]byte, total)
				for i := range b {
					b[i] = 0x11
				}
				copy(b, []byte{0x1A, 0x45, 0xDF, 0xA3})
				b[pos], b[pos+1] = 0x42, 0x82
				if pos+2 < total {
					b[pos+2] = w
				}
				for _, k := range []int{1, 2, 8} {
					if pos+2+k+4 <= total {
						copy(b[pos+2+k:], "webm")
					}
				}
				out = append(out, b)
			}
		}
	}
	return out
}

func (g *vfGen) htmlInputs(n int) [][]byte {
	labels := []string{"utf-8", "UTF-8", "iso-8859-1", "windows-1252", "utf-16", "UTF-16LE", "x", "a\"b", "a;b", "é", "\xff\xfe", "a b", "", "shift_jis", "a&lt;b", "k\\oi8"}
	contents := []string{"text/html; charset=%s", "text/html;charset=\"%s\"", "text/html; charset='%s'", "charset %s", "text/html; charset: %s", "charset", "charsetcharset=%s", "text/html; charset =  %s ; x=y", "Charset=%s"}
	pro := []string{"", "<!DOCTYPE html>", "<html><head>", "<!-- <meta charset=fake> -->", "<title><meta charset=fake></title>", "<script>var a='<meta charset=fake>'</script>", " \n\t", "\xef\xbb\xbf", "\xff\xfe"}
	var out [][]byte
	for i := 0; i < n; i++ {
		l := labels[g.intn(len(labels))]
		p := pro[g.intn(len(pro))]
		var decl string
		switch g.intn(6) {
		case 0:
			decl = fmt.Sprintf("<meta charset=%s>", l)
		case 1:
			decl = fmt.Sprintf("<META CHARSET=\"%s\" />", l)
		case 2:
			decl = fmt.Sprintf("<meta http-equiv=\"Content-Type\" content=\"%s\">", fmt.Sprintf(contents[g.intn(len(contents))], l))
		case 3:
			decl = fmt.Sprintf("<meta content='%s' http-equiv=content-type>", strings.ReplaceAll(fmt.Sprintf(contents[g.intn(len(contents))], l), "%!(EXTRA string="+l+")", ""))
		case 4:
			decl = fmt.Sprintf("<meta content=\"%s\">", fmt.Sprintf(contents[g.intn(len(contents))], l))
		default:
			decl = fmt.Sprintf("<meta name=x content=y><meta charset='%s'>", l)
		}
		decl = strings.ReplaceAll(decl, "%!(EXTRA string="+l+")", "")
		doc := p + "<html><head>" + decl + "</head><body>h\xe9llo</body></html>"
		if g.intn(3) == 0 {
			doc = p + decl
		}
		out = append(out, []byte(doc))
	}
	return out
}

func (g *vfGen) genC01() {
	// the charset entry points on empty and white-space-only input, and on the shortest prologues
	for _, w := range []string{"", " ", "\n", " \t\r\n\x0c ", "<", "<?", "<?xml", "<?xml ", "<?xml?>", "<m", "<meta", "<meta ", "<meta charset", "<meta charset=", "\xef\xbb\xbf", "\xff\xfe", "\xfe"} {
		for _, k := range []string{"plain", "html", "xml"} {
			g.emit(vfOp("cs", k, []byte(w)))
		}
		g.emit(vfOp("meta", []byte(w)))
		g.emit(vfOp("xmlenc", []byte(w)))
	}
	// 1. every corpus entry cut at every (short) length, through Detect with the limit at / around the cut
	for _, c := range vfCorpus() {
		max := len(c)
		if max > 96 {
			max = 96
		}
		for n := 0; n <= max; n++ {
			if !g.thorough && n > 40 && n%3 != 0 {
				continue
			}
			g.emit(vfOp("walk", c[:n], 0))
		}
		if len(c) > 96 {
			for i := 0; i < g.pick(3, 30); i++ {
				n := g.intn(len(c))
				g.emit(vfOp("walk", c, n))
			}
		}
	}
	// 2. crafted headers with hostile length fields
	for _, h := range g.attackHeaders() {
		g.emit(vfOp("walk", h, 0))
		if g.thorough || g.intn(4) == 0 {
			g.emit(vfOp("walk", h, len(h)))
			g.emit(vfOp("walk", h, len(h)-1))
		}
	}
	// 3. limits
	for _, c := range [][]byte{{}, {0}, []byte("a"), []byte("{\"a\":[1,2"), []byte("a,b\n1,2\n3,"), []byte("<html><meta charset=x>")} {
		for _, l := range vfLimits {
			g.emit(vfOp("walk", c, l))
		}
	}
	// 4. HTML / XML declarations (charset extraction loops)
	for _, h := range g.htmlInputs(g.pick(400, 8000)) {
		g.emit(vfOp("walk", h, 0))
	}
	// 5. random bytes and mutated corpus
	corpus := vfCorpus()
	for i := 0; i < g.pick(1500, 40000); i++ {
		var b []byte
		if g.intn(3) == 0 {
			b = g.bytes(g.intn(600))
		} else {
			c := corpus[g.intn(len(corpus))]
			if len(c) > 5000 {
				c = c[:5000]
			}
			b = append([]byte{}, c...)
			for k := 0; k < 1+g.intn(4) && len(b) > 0; k++ {
				switch g.intn(3) {
				case 0:
					b[g.intn(len(b))] = byte(g.intn(256))
				case 1:
					j := g.intn(len(b))
					b = append(b[:j], b[j+1:]...)
				default:
					j := g.intn(len(b) + 1)
					b = append(b[:j], append([]byte{byte(g.intn(256))}, b[j:]...)...)
				}
			}
		}
		g.emit(vfOp("walk", b, []uint32{0, 0, 3072, uint32(len(b)), uint32(len(b) / 2)}[g.intn(5)]))
	}
}
