//go:build verif

package mimetype

func (g *vfGen) runMore2(slice string) bool { return false }

func vfExecMore2(f []string, op string) (string, bool) { return "", false }
