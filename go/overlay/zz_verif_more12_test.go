//go:build verif

package mimetype

import (
	"fmt"
	"strconv"
	"strings"

	vjson3 "github.com/gabriel-vasile/mimetype/internal/json"
)

func vfExecMore12(f []string, op string) (string, bool) {
	switch f[0] {
	case "hist": // hist q:hex,q:hex,...  : json.Parse calls in sequence on this goroutine (pool kept hot)
		var pooled, isolated []string
		for _, it := range strings.Split(f[1], ",") {
			qh := strings.SplitN(it, ":", 2)
			raw, _ := vfExact(vfUnhex(qh[1]))
			p, i, t, q := vjson3.Parse(qh[0], raw)
			pooled = append(pooled, fmt.Sprintf("%d/%d/%d/%v", p, i, t, q))
			p2, i2, t2, q2 := vjson3.VerifParseFresh(qh[0], raw)
			isolated = append(isolated, fmt.Sprintf("%d/%d/%d/%v", p2, i2, t2, q2))
		}
		return fmt.Sprintf("%s => %s %s", op, strings.Join(pooled, ","), strings.Join(isolated, ",")), true
	case "dhist": // dhist lim hex,hex,... : Detect calls in sequence; equal inputs must give equal results
		lim64, _ := strconv.ParseUint(f[1], 10, 32)
		SetLimit(uint32(lim64))
		var res []string
		for _, h := range strings.Split(f[2], ",") {
			in, buf := vfExact(vfUnhex(h))
			m := Detect(in)
			r := vfRes(m)
			if !buf.intact() {
				r += "!MODIFIED"
			}
			res = append(res, r)
		}
		return fmt.Sprintf("%s => %s", op, strings.Join(res, ";")), true
	}
	return vfExecMore13(f, op)
}

func (g *vfGen) runMore12(slice string) bool {
	switch slice {
	case "C04":
		g.genC04()
	default:
		return g.runMore13(slice)
	}
	return true
}

func (g *vfGen) genC04() {
	qs := []string{"json", "geo", "har", "gltf"}
	// inputs designed to leave dirt in the pooled state
	deep := strings.Repeat(`{"k":`, 200) // aborted parse with a deep path (> 128: the drop branch)
	dirty := []string{
		`{"type":"Feature"}`, `{"log":{"version":1}}`, `{"asset":{"version":"2.0"}}`,
		`{"a":{"b":{"c":{"d":`, `{"a":{"b":[1,2,{"c":`, deep, `[[[[[[`, `{"log":{"x":`, `{"type":`, `{"asset":{"version":`,
		`{}`, `[]`, `{"x":1}`, ``, `   `, `{"type":"Nope"}`, `{"a":[1],"type":"Point"}`, `garbage`, `{"k":"` + strings.Repeat("x", 300),
	}
	// a parse released with more than 128 open containers (the pool's drop branch), then documents nested
	// just below / above the recursion cap: the pooled state must still carry the cap
	for _, tower := range []string{strings.Repeat("[", 4090) + strings.Repeat("]", 4090), strings.Repeat("[", 4100) + strings.Repeat("]", 4100),
		strings.Repeat(`{"k":`, 4100) + "1" + strings.Repeat("}", 4100), strings.Repeat("[", 5000)} {
		for _, d := range []string{deep, strings.Repeat("[", 300), strings.Repeat(`[{"a":`, 100)} {
			g.emit("hist json:" + vfHex([]byte(d)) + ",json:" + vfHex([]byte(tower)) + ",geo:" + vfHex([]byte(d)) + ",geo:" + vfHex([]byte(tower)))
			g.emit(fmt.Sprintf("dhist 0 %s,%s,%s,%s", vfHex([]byte(tower)), vfHex([]byte(d)), vfHex([]byte(tower)), vfHex([]byte(tower))))
		}
	}
	n := g.pick(400, 20000)
	for i := 0; i < n; i++ {
		k := 2 + g.intn(12)
		var items []string
		for j := 0; j < k; j++ {
			var s string
			if g.intn(4) == 0 {
				s = g.jdocument()
			} else {
				s = dirty[g.intn(len(dirty))]
			}
			items = append(items, qs[g.intn(len(qs))]+":"+vfHex([]byte(s)))
		}
		g.emit("hist " + strings.Join(items, ","))
	}
	// Detect sequences: JSON family, CSV of different widths, big and tiny inputs, repeated
	pool := [][]byte{
		[]byte(`{"type":"Feature","x":[1,2]}`), []byte(`{"a":{"b":{"c":{"d":`), []byte(deep), []byte(`{"log":{"entries":[]}}`),
		[]byte("a,b,c\n1,2,3\n4,5,6\n"), []byte("a,b\n1,2\n3,4\n"), []byte("a\tb\n1\t2\n"), []byte("a,b,c,d,e,f,g\n1,2,3,4,5,6,7\n1,2,3,4,5,6,7\n"),
		[]byte("{\"a\":1}\n{\"b\":2}\n"), g.textBytes(6000), g.bytes(5000), {}, []byte("<html><meta charset=latin1>"), []byte("PK\x03\x04"),
		[]byte(`{"asset":{"version":"2.0"}}`), []byte("\"q,u\"\"o\",x\n1,2\n3,4\n"),
		// scans that stop early: a ragged line followed by many more lines (tab and comma separated)
		[]byte("a\tb\tc\n1\t2\t3\n4\t5\n" + strings.Repeat("6\t7\t8\n", 40)), []byte("a,b,c\n1,2,3\n4,5\n" + strings.Repeat("6,7,8\n", 40)),
		[]byte("h1\th2\nx\ty\tz\n" + strings.Repeat("tail\tof\tthe\tfile\n", 30)), []byte("1,2,3\n4,5,6\n7,8,9\n"), []byte("x\ty\n1\t2\n3\t4\n"),
	}
	for _, c := range vfCorpus() {
		if len(c) <= 8192 {
			pool = append(pool, c)
		}
	}
	// texts whose charset cannot be determined (no parameter at all) between documents that carry one: an optional
	// parameter is part of the answer, and a parameter of an earlier answer must not show up in a later one
	noCs := [][]byte{[]byte("plain \x80 text"), []byte("caf\xe9 \x80\x81 ok\n"), []byte("a,b\n1,\x80\n3,4\n"), []byte("<html><body>\x80\x81</body>"),
		[]byte("<?xml version=\"1.0\"?><a>\x80</a>"), []byte("\x80"), []byte("#!/bin/sh\necho \x80\x90\n"), []byte("{\"a\":\"\x80\"}")}
	withCs := [][]byte{[]byte("plain text"), []byte("<html><meta charset=latin1>"), []byte("<?xml version=\"1.0\" encoding=\"koi8-r\"?><a/>"),
		[]byte("\xef\xbb\xbfbom"), []byte("\xff\xfea\x00"), []byte("caf\xc3\xa9"), []byte("a,b\n1,2\n3,4\n"), []byte("caf\xe9 latin")}
	pool = append(pool, noCs...)
	for _, nc := range noCs {
		for _, wc := range withCs {
			g.emit(fmt.Sprintf("dhist 0 %s,%s,%s,%s,%s", vfHex(nc), vfHex(wc), vfHex(nc), vfHex(wc), vfHex(nc)))
		}
	}
	for i := 0; i < g.pick(300, 10000); i++ {
		k := 4 + g.intn(16)
		var items []string
		for j := 0; j < k; j++ {
			items = append(items, vfHex(pool[g.intn(len(pool))]))
		}
		g.emit(fmt.Sprintf("dhist %d %s", []int{0, 3072, 16, 64}[g.intn(4)], strings.Join(items, ",")))
	}
	// directed: the same document many times in a row (an answer that depends on anything but the bytes — map
	// iteration order, a counter, the clock — shows up as two different answers for one header): documents whose
	// declarations compete (two attributes naming a charset, two metas, an XML declaration and a meta, duplicate keys)
	for _, doc := range []string{
		`<html><head><meta http-equiv="Content-Type" content="text/html; charset=iso-8859-1" charset="utf-8"></head>`,
		`<html><meta charset="windows-1252" content="text/html; charset=iso-8859-1">`,
		`<html><meta content="text/html; charset=koi8-r" charset=latin2 http-equiv=content-type>`,
		`<html><meta charset=a charset=b><meta charset=c>`,
		`<?xml version="1.0" encoding="iso-8859-5"?><html><meta charset="utf-16">`,
		`{"type":"Feature","type":"Nope","geometry":null}`, `{"log":{"version":"1","creator":{},"entries":[]},"asset":{"version":"2"}}`,
		"a,b;c\td\n1,2;3\t4\n5,6;7\t8\n",
	} {
		var items []string
		for j := 0; j < 64; j++ {
			items = append(items, vfHex([]byte(doc)))
		}
		g.emit(fmt.Sprintf("dhist 0 %s", strings.Join(items, ",")))
		g.emit(fmt.Sprintf("dhist 3072 %s", strings.Join(items, ",")))
	}
	// directed: inputs that agree up to a limit that falls inside a field a check compares (the zip signature behind a
	// Chrome extension header, a tar checksum, a string at a fixed offset) and differ right behind it
	for _, base := range vfDirected()["CRX"] {
		for l := 16; l < len(base) && l < 90; l++ {
			a := append(append([]byte{}, base[:l]...), []byte("PK\x03\x04PK\x03\x04")...)
			b := append(append([]byte{}, base[:l]...), []byte("\x03\x04\x04\x04xxxx")...)
			c := append(append([]byte{}, base[:l]...), []byte("K\x03\x04zz")...)
			g.emit(fmt.Sprintf("dhist %d %s,%s,%s,%s", l, vfHex(a), vfHex(b), vfHex(c), vfHex(base[:l])))
		}
	}
	// directed: an aborted separated-values scan directly before a clean table
	{
		rag := [][]byte{[]byte("a\tb\tc\n1\t2\t3\n4\t5\n" + strings.Repeat("6\t7\t8\n", 40)), []byte("a,b,c\n1,2,3\n4,5\n" + strings.Repeat("6,7,8\n", 40)),
			[]byte("h1\th2\nx\ty\tz\n" + strings.Repeat("tail\tof\tthe\tfile\n", 30))}
		clean := [][]byte{[]byte("1,2,3\n4,5,6\n7,8,9\n"), []byte("x\ty\n1\t2\n3\t4\n"), []byte("a,b\n1,2\n3,4\n")}
		for _, r := range rag {
			for _, c := range clean {
				for _, l := range []int{0, 3072} {
					g.emit(fmt.Sprintf("dhist %d %s,%s,%s,%s,%s", l, vfHex(c), vfHex(r), vfHex(c), vfHex(r), vfHex(c)))
				}
			}
		}
	}
	// inputs that differ only beyond the limit
	for i := 0; i < g.pick(200, 5000); i++ {
		base := pool[g.intn(len(pool))]
		if len(base) < 4 {
			continue
		}
		l := 1 + g.intn(len(base))
		a := append(append([]byte{}, base[:l]...), g.bytes(20)...)
		b := append(append([]byte{}, base[:l]...), g.textBytes(30)...)
		g.emit(fmt.Sprintf("dhist %d %s,%s,%s", l, vfHex(a), vfHex(b), vfHex(base[:l])))
		// the byte right behind the limit is a line break in one variant and not in the other
		c := append(append([]byte{}, base[:l]...), []byte("\n1,2\n")...)
		d := append(append([]byte{}, base[:l]...), []byte("x1,2\n")...)
		e := append(append([]byte{}, base[:l]...), []byte("\r\n\"")...)
		g.emit(fmt.Sprintf("dhist %d %s,%s,%s,%s", l, vfHex(c), vfHex(d), vfHex(e), vfHex(base[:l])))
	}
	// tables (clean and ragged) cut inside every line, followed by a line break or not
	for _, t := range []string{"a,b,c\n1,2,3\n4,5,6\n7,8,9\n", "a\tb\n1\t2\n3\t4\n5\t6\n", "{\"a\":1}\n{\"b\":2}\n{\"c\":3}\n", "a,b,c\r\n1,2,3\r\n4,5,6\r\n"} {
		for l := 8; l < len(t); l++ {
			base := []byte(t)[:l]
			c := append(append([]byte{}, base...), []byte("\n")...)
			d := append(append([]byte{}, base...), []byte("z")...)
			g.emit(fmt.Sprintf("dhist %d %s,%s,%s", l, vfHex(c), vfHex(d), vfHex(base)))
		}
	}
}
