//go:build verif

package mimetype

func (g *vfGen) runMore12(slice string) bool { return false }

func vfExecMore12(f []string, op string) (string, bool) { return "", false }
