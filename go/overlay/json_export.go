//go:build verif

package json

// Exports for the verification harness (overlay only).

// VerifParseCap runs the scanner on a fresh state with the given recursion cap.
func VerifParseCap(queryType string, raw []byte, cap int) (parsed, inspected, firstToken int, querySatisfied bool) {
	p := &parserState{maxRecursion: cap}
	p.reset()
	got := p.consumeAny(raw, queries[queryType], 0)
	if !p.complete {
		got = 0
	}
	return got, p.ib, p.firstToken, p.querySatisfied
}

// VerifParseFresh runs the scanner on a brand-new state (no pool involved).
func VerifParseFresh(queryType string, raw []byte) (parsed, inspected, firstToken int, querySatisfied bool) {
	p := &parserState{maxRecursion: maxRecursion}
	p.reset()
	got := p.consumeAny(raw, queries[queryType], 0)
	if !p.complete {
		got = 0
	}
	return got, p.ib, p.firstToken, p.querySatisfied
}
