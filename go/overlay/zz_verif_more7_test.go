//go:build verif

package mimetype

import (
	"bytes"
	"fmt"
	"strings"

	vjson2 "github.com/gabriel-vasile/mimetype/internal/json"
	"github.com/gabriel-vasile/mimetype/internal/magic"
)

var _ = vjson2.Parse

func vfBit(b bool) string {
	if b {
		return "T"
	}
	return "F"
}

func vfExecMore7(f []string, op string) (string, bool) {
	switch f[0] {
	case "jdoc": // jdoc hex : verdict of magic.JSON on the whole document and on every cut
		doc := vfUnhex(f[1])
		var sb strings.Builder
		whole, _ := vfExact(doc)
		sb.WriteString(vfSafeDet(magic.JSON, whole, 0)[:1])
		sb.WriteString(vfSafeDet(magic.JSON, whole, uint32(len(doc)+1))[:1])
		sb.WriteByte(' ')
		for k := 1; k <= len(doc); k++ {
			c, _ := vfExact(doc[:k])
			sb.WriteString(vfSafeDet(magic.JSON, c, uint32(k))[:1])
		}
		return fmt.Sprintf("%s => %s", op, sb.String()), true
	case "jany": // jany hex : whole-mode and truncated-mode verdicts of JSON / NdJSON
		raw, _ := vfExact(vfUnhex(f[1]))
		n := uint32(len(raw))
		return fmt.Sprintf("%s => %s%s", op, vfSafeDet(magic.JSON, raw, 0)[:1], vfSafeDet(magic.JSON, raw, n)[:1]), true
	case "jsubcut": // jsubcut hex lim decEnd : as jsub, the deciding member ends at decEnd
		data := vfUnhex(f[1])
		var lim uint32
		fmt.Sscan(f[2], &lim)
		SetLimit(lim)
		in, _ := vfExact(data)
		m := Detect(in)
		return fmt.Sprintf("%s => %s", op, vfChain(m)), true
	case "jsub": // jsub hex lim : Detect leaf for JSON sub-typing
		data := vfUnhex(f[1])
		var lim uint32
		fmt.Sscan(f[2], &lim)
		SetLimit(lim)
		in, _ := vfExact(data)
		m := Detect(in)
		return fmt.Sprintf("%s => %s", op, vfChain(m)), true
	}
	return vfExecMore8(f, op)
}

func (g *vfGen) runMore7(slice string) bool {
	switch slice {
	case "C08":
		g.genC08()
	case "C09":
		g.genC09()
	case "C10":
		g.genC10()
	default:
		return g.runMore8(slice)
	}
	return true
}

// ---- valid JSON generation: every token spelling, random layout ----

func (g *vfGen) jws() string {
	switch g.intn(6) {
	case 0:
		return " "
	case 1:
		return "\n  "
	case 2:
		return "\t"
	case 3:
		return "\r\n"
	}
	return ""
}

func (g *vfGen) jstring() string {
	var sb strings.Builder
	sb.WriteByte('"')
	n := g.intn(8)
	for i := 0; i < n; i++ {
		switch g.intn(12) {
		case 0:
			sb.WriteString([]string{",", "]", "}", "[", "{", ":"}[g.intn(6)])
		case 1:
			sb.WriteString([]string{"\\\"", "\\\\", "\\/", "\\b", "\\f", "\\n", "\\r", "\\t"}[g.intn(8)])
		case 2:
			sb.WriteString(fmt.Sprintf("\\u%04x", g.intn(65536)))
		case 3:
			sb.WriteString(fmt.Sprintf("\\u%04X", g.intn(65536)))
		case 4:
			sb.WriteString("\xc3\xa9")
		case 5:
			sb.WriteString(" ")
		default:
			sb.WriteByte("abcdefghijklmnopqrstuvwxyzABC0123456789-_."[g.intn(42)])
		}
	}
	sb.WriteByte('"')
	return sb.String()
}

func (g *vfGen) jnumber() string {
	s := ""
	if g.intn(3) == 0 {
		s = "-"
	}
	if g.intn(4) == 0 {
		s += "0"
	} else {
		s += fmt.Sprintf("%d", 1+g.intn(99999))
	}
	if g.intn(3) == 0 {
		s += fmt.Sprintf(".%d", g.intn(1000))
	}
	if g.intn(3) == 0 {
		s += []string{"e", "E"}[g.intn(2)] + []string{"", "+", "-"}[g.intn(3)] + fmt.Sprintf("%d", g.intn(300))
	}
	return s
}

func (g *vfGen) jvalue(depth int) string {
	k := g.intn(10)
	if depth <= 0 && k >= 6 {
		k = g.intn(6)
	}
	switch k {
	case 0:
		return "true"
	case 1:
		return "false"
	case 2:
		return "null"
	case 3, 4:
		return g.jnumber()
	case 5:
		return g.jstring()
	case 6, 7:
		return g.jarray(depth - 1)
	}
	return g.jobject(depth - 1)
}

func (g *vfGen) jarray(depth int) string {
	n := g.intn(4)
	var parts []string
	for i := 0; i < n; i++ {
		parts = append(parts, g.jws()+g.jvalue(depth)+g.jws())
	}
	if n == 0 {
		return "[" + g.jws() + "]"
	}
	return "[" + strings.Join(parts, ",") + "]"
}

func (g *vfGen) jobject(depth int) string {
	n := g.intn(4)
	var parts []string
	for i := 0; i < n; i++ {
		parts = append(parts, g.jws()+g.jstring()+g.jws()+":"+g.jws()+g.jvalue(depth)+g.jws())
	}
	if n == 0 {
		return "{" + g.jws() + "}"
	}
	return "{" + strings.Join(parts, ",") + "}"
}

func (g *vfGen) jdocument() string {
	d := 1 + g.intn(4)
	var body string
	if g.intn(2) == 0 {
		body = g.jarray(d)
	} else {
		body = g.jobject(d)
	}
	return g.jws() + body + g.jws()
}

func (g *vfGen) genC08() {
	n := g.pick(400, 12000)
	for i := 0; i < n; i++ {
		d := g.jdocument()
		if len(d) > 400 {
			continue
		}
		g.emit(vfOp("jdoc", []byte(d)))
		if i%5 == 0 {
			// through Detect as well, at limits around the document
			for _, l := range []int{0, len(d) / 2, len(d) - 1, len(d), len(d) + 1} {
				if l >= 0 {
					g.emit(vfOp("walk", []byte(d), l))
				}
			}
		}
	}
	// documents with multi-byte characters in strings and keys, through Detect and DetectReader at EVERY limit
	// (a cut inside a character, between characters, inside an escape)
	for i := 0; i < g.pick(40, 1500); i++ {
		words := []string{"caf\u00e9", "\u65e5\u672c\u8a9e", "\U0001F600", "na\u00efve", "\u20ac", "\u0416", "x"}
		var sb strings.Builder
		sb.WriteString([]string{"", " ", "\n  "}[g.intn(3)] + "{")
		k := 1 + g.intn(4)
		for j := 0; j < k; j++ {
			if j > 0 {
				sb.WriteString(",")
			}
			sb.WriteString("\"" + words[g.intn(len(words))] + "\":[\"" + words[g.intn(len(words))] + words[g.intn(len(words))] + "\"," + g.jnumber() + "]")
		}
		sb.WriteString("}")
		d := []byte(sb.String())
		g.emit(vfOp("jdoc", d))
		open := bytes.IndexByte(d, '{')
		for l := open + 1; l <= len(d)+1; l++ {
			g.emit(vfOp("walk", d, l))
			if l%3 == 0 {
				g.emit(vfOp("reader", l, d, "~", 0, -1))
			}
		}
	}
	// documents followed by blank lines / trailing white space (legal RFC 8259), whole and cut inside the tail
	for i := 0; i < g.pick(60, 2000); i++ {
		d := g.jdocument()
		if len(d) > 300 {
			continue
		}
		d = strings.NewReplacer("\n", " ", "\r", " ").Replace(d)
		tail := []string{"\n\n", "\n\n\n", "\r\n\r\n", "\n \n", "\n\t\n\n", " \n\n "}[g.intn(6)]
		t := d + tail
		g.emit(vfOp("jdoc", []byte(t)))
		for _, l := range []int{0, len(t) + 1, len(t), len(t) - 1, len(d) + 1, len(d) + 2} {
			g.emit(vfOp("walk", []byte(t), l))
		}
	}
	// deep nesting up to and around the cap, arrays, objects and mixed
	depths := []int{10, 100, 4096, 4097}
	if g.thorough {
		depths = []int{10, 100, 2049, 4095, 4096, 4097}
	}
	for _, depth := range depths {
		d := strings.Repeat("[", depth) + strings.Repeat("]", depth)
		g.emit(vfOp("jany", []byte(d)))
		if depth <= 4096 {
			o := strings.Repeat(`{"k":`, depth-1) + "{}" + strings.Repeat("}", depth-1)
			g.emit(vfOp("jany", []byte(o)))
			if depth%2 == 0 && (g.thorough || depth <= 100) {
				m := strings.Repeat(`[{"k":`, depth/2) + "1" + strings.Repeat("}]", depth/2)
				g.emit(vfOp("jany", []byte(m)))
			}
			// through Detect (the Lean side evaluates every JSON-family check on it: seconds per deep document)
			if g.thorough || depth <= 100 || depth == 4096 {
				g.emit(vfOp("walk", []byte(o), 0))
			}
			if g.thorough || depth <= 100 {
				g.emit(vfOp("walk", []byte(o), len(o)/2))
			}
		}
	}
	// the witnesses of the nested-failure defect
	for _, w := range []string{`[",abc"]`, `["]x"]`, `{"a":"}b"}`, `[[",", "]"]]`} {
		g.emit(vfOp("jdoc", []byte(w)))
	}
}

func (g *vfGen) genC09() {
	// exhaustive strings over a JSON-relevant alphabet
	alpha := []byte{'{', '}', '[', ']', '"', ':', ',', ' ', '1', 'e', '-', '.', 't', '\\', 0x0C, 'u'}
	maxLen := g.pick(4, 5)
	var rec func(cur []byte)
	rec = func(cur []byte) {
		g.emit(vfOp("jany", cur))
		if len(cur) == maxLen {
			return
		}
		for _, a := range alpha {
			rec(append(append([]byte{}, cur...), a))
		}
	}
	rec(nil)
	// mutations of valid documents
	n := g.pick(1500, 60000)
	for i := 0; i < n; i++ {
		d := []byte(g.jdocument())
		if len(d) == 0 || len(d) > 300 {
			continue
		}
		for k := 0; k < 1+g.intn(3); k++ {
			structural := []byte("{}[]\",: 1e-.tfn\\\xc3\xe2\xf0\xa0\x85\x0c\x0b")
			switch g.intn(4) {
			case 0:
				j := g.intn(len(d))
				d = append(d[:j], d[j+1:]...)
			case 1:
				j := g.intn(len(d) + 1)
				d = append(d[:j], append([]byte{structural[g.intn(len(structural))]}, d[j:]...)...)
			case 2:
				d[g.intn(len(d))] = structural[g.intn(len(structural))]
			default:
				if len(d) > 1 {
					j := g.intn(len(d) - 1)
					d[j], d[j+1] = d[j+1], d[j]
				}
			}
			if len(d) == 0 {
				break
			}
		}
		g.emit(vfOp("jany", d))
		if i%20 == 0 {
			g.emit(vfOp("walk", d, 0))
			g.emit(vfOp("walk", d, len(d)))
		}
	}
	for _, w := range []string{"[{]", `{"a":[}`, "[", "{", " [", "[[", `{"a":`, `[1,]`, `[01]`, `[1.e5]`, `[,]`, `{,}`, `[1 2]`, `{"a" 1}`} {
		g.emit(vfOp("jany", []byte(w)))
	}
	// every partial escape followed by one more byte (good or bad), in value, key and nested positions; judged whole
	// and as a cut header (limit = length): a bad byte after an incomplete escape is not a viable prefix
	for _, esc := range []string{"\\", "\\u", "\\u1", "\\u1a", "\\u1aF", "\\u1aF0", "\\n", "\\x"} {
		for _, last := range []string{"", "x", "\"", "\\", "}", "]", " ", "g", "0", "f", ",", "\n", "\xc3"} {
			for _, ctx := range []string{"[\"%s", "{\"%s", "{\"k\":\"%s", "[1,\"%s", "[[\"ab%s", " [\"%s"} {
				d := []byte(fmt.Sprintf(ctx, esc+last))
				g.emit(vfOp("jany", d))
				g.emit(vfOp("walk", d, len(d)))
				g.emit(vfOp("walk", d, 0))
			}
		}
	}
	// a second small alphabet: bytes >= 0x80 (UTF-8 lead and continuation bytes, NEL, NBSP pieces) and the blanks
	// that Unicode-aware trimming would remove, around quotes and brackets
	alpha2 := []byte{'[', ']', '"', ',', '1', ' ', 0xC3, 0xE2, 0xF0, 0xA0, 0x85, 0x0C, 0xC2}
	maxLen2 := g.pick(4, 5)
	var rec2 func(cur []byte)
	rec2 = func(cur []byte) {
		g.emit(vfOp("jany", cur))
		if len(cur) == maxLen2 {
			return
		}
		for _, a := range alpha2 {
			rec2(append(append([]byte{}, cur...), a))
		}
	}
	rec2([]byte{'['})
	for _, w := range []string{"[\"\xc3\"]\"]", "[\"\xf0\",]\"]", "{\"k\":\"caf\xc3\", \"}", "{\"a\":\"\xe2\"}{\"}", "[1]\x0c", "\xc2\xa0[1,2]", "{\"a\":1}\xe2\x80\xa8",
		"[1] \x0c", "[1,2 \x0c", "\x0c[1]", "[1]\xc2\x85", "[\"\xe9\"]", "[\"\xc3\xa9\"]", "[\"\xf0\x9f\x98\x80\"]"} {
		b := []byte(w)
		g.emit(vfOp("jany", b))
		for l := 1; l <= len(b)+1; l++ {
			g.emit(vfOp("walk", b, l))
		}
		g.emit(vfOp("walk", b, 0))
	}
}

func (g *vfGen) genC10() {
	geo := []string{"Feature", "FeatureCollection", "Point", "LineString", "Polygon", "MultiPoint", "MultiLineString", "MultiPolygon", "GeometryCollection", "feature", "Circle", ""}
	sib := func() string {
		switch g.intn(10) {
		case 9:
			// keys that spell a query path in one string (joined by a separator), and path elements as siblings
			j := []string{".", "/", ",", " ", "", "\\u0000", ":", "\\t"}[g.intn(8)]
			return []string{`"log` + j + `version":"1.2"`, `"asset` + j + `version":"2.0"`, `"log` + j + `entries":[]`, `"log` + j + `creator":{}`,
				`"log` + j + `pages":[]`, `"version":"2.0","entries":[]`, `"` + j + `type":"Feature"`, `"type` + j + `":"Point"`}[g.intn(8)]
		case 0:
			return `"accessors":[1]`
		case 1:
			return `"list":[]`
		case 2:
			return `"nested":{"type":"Feature","log":{"version":1},"asset":{"version":"2.0"}}`
		case 3:
			return `"arr":[{"type":"Point"},[1,[2]],"x"]`
		case 4:
			return `"types":"Feature"`
		case 5:
			return `"n":` + g.jnumber()
		case 6:
			return `"s":` + g.jstring()
		case 7:
			return `"deep":[[[{"asset":{"version":"1.0"}}]]]`
		}
		return `"k` + fmt.Sprint(g.intn(100)) + `":` + g.jvalue(2)
	}
	deciding := func() (string, string) {
		switch g.intn(8) {
		case 0, 1:
			return fmt.Sprintf(`"type"%s:%s"%s"%s`, g.jws(), g.jws(), geo[g.intn(len(geo))], g.jws()), "geo"
		case 2:
			return `"log"` + g.jws() + `:` + g.jws() + `{` + []string{`"version":"1.2"`, `"creator" : {}`, `"entries":[]`, `"pages":[]`, `"Version":1`}[g.intn(5)] + `}`, "har"
		case 3:
			return `"log"` + g.jws() + `:{"x":[1,2],"entries"` + g.jws() + `:[{"a":[1]}]}`, "har"
		case 4:
			return `"asset"` + g.jws() + `:` + g.jws() + `{"version"` + g.jws() + `:` + g.jws() + `"` + []string{"1.0", "2.0", "3.0", "2"}[g.intn(4)] + `"}`, "gltf"
		case 5:
			return `"asset":{"generator":"g","copyright":[1],"version":"2.0"}`, "gltf"
		case 6:
			return `"type":` + []string{`["Feature"]`, `{"type":"Feature"}`, `1`, `null`}[g.intn(4)], "none"
		}
		return sib(), "none"
	}
	n := g.pick(1500, 60000)
	for i := 0; i < n; i++ {
		k := g.intn(5)
		var ms []string
		for j := 0; j < k; j++ {
			ms = append(ms, sib())
		}
		d1, _ := deciding()
		ms = append(ms, d1)
		if g.intn(4) == 0 {
			d2, _ := deciding()
			ms = append(ms, d2)
		}
		g.rng.Shuffle(len(ms), func(a, b int) { ms[a], ms[b] = ms[b], ms[a] })
		for j := range ms {
			ms[j] = g.jws() + ms[j] + g.jws()
		}
		doc := g.jws() + "{" + strings.Join(ms, ",") + "}" + g.jws()
		g.emit(vfOp("jsub", []byte(doc), 0))
		if i%4 == 0 {
			g.emit(vfOp("jsub", []byte(doc), len(doc)+1))
			g.emit(vfOp("jparse", "geo", []byte(doc)))
			g.emit(vfOp("jparse", "har", []byte(doc)))
			g.emit(vfOp("jparse", "gltf", []byte(doc)))
		}
	}
	g.emit(vfOp("jsub", []byte(`{"accessors":[1],"asset":{"version":"2.0"}}`), 0))
	// siblings nested about as deep as the parser's bookkeeping is sized for (the path stack is trimmed at 128
	// entries), in front of the deciding member: at the top level, inside the deciding object, inside another object
	for _, depth := range []int{60, 126, 127, 128, 129, 130, 200, 1000} {
		arr := strings.Repeat("[", depth) + "1" + strings.Repeat("]", depth)
		obj := strings.Repeat(`{"k":`, depth) + "1" + strings.Repeat("}", depth)
		mix := strings.Repeat(`[{"k":`, depth/2) + "1" + strings.Repeat("}]", depth/2)
		for _, deep := range []string{arr, obj, mix} {
			for _, doc := range []string{
				`{"log":{"x":` + deep + `,"entries":[]}}`, `{"log":{"entries":[],"x":` + deep + `}}`,
				`{"asset":{"extras":` + deep + `,"version":"2.0"}}`, `{"x":` + deep + `,"asset":{"version":"2.0"}}`,
				`{"x":` + deep + `,"type":"Feature"}`, `{"a":{"x":` + deep + `,"type":"Feature"}}`, `{"a":{"x":` + deep + `},"type":"Point"}`,
				`{"a":{"b":{"x":` + deep + `,"log":{"version":1}}},"n":1}`, `{"a":{"x":` + deep + `,"log":{"version":1}},"log":{"creator":{}}}`,
			} {
				g.emit(vfOp("jsub", []byte(doc), 0))
			}
		}
	}
	// truncated documents with exactly one deciding member: every limit from the end of
	// that member's value onwards
	only := []string{`"type":"Feature"`, `"type" : "MultiPolygon" `, `"log":{"version":"1.2"}`, `"log" : { "entries" : [] }`,
		`"asset":{"version":"2.0"}`, `"asset" : {"generator":"x", "version" : "1.0" }`}
	for i := 0; i < g.pick(120, 3000); i++ {
		var before, after []string
		for j := 0; j < g.intn(4); j++ {
			before = append(before, g.jws()+neutralSib(g)+g.jws())
		}
		for j := 0; j < 1+g.intn(4); j++ {
			after = append(after, g.jws()+neutralSib(g)+g.jws())
		}
		dec := only[g.intn(len(only))]
		head := g.jws() + "{" + strings.Join(append(before, g.jws()+dec), ",")
		doc := head + "," + strings.Join(after, ",") + "}"
		for l := len(head); l <= len(doc)+1; l++ {
			if g.thorough || l < len(head)+6 || g.intn(5) == 0 {
				g.emit(vfOp("jsubcut", []byte(doc), l, len(head)))
			}
		}
	}
}

func neutralSib(g *vfGen) string {
	switch g.intn(6) {
	case 0:
		return `"accessors":[1,2]`
	case 1:
		return `"list":[]`
	case 2:
		return `"nested":{"a":{"b":[{"c":1}]}}`
	case 3:
		return `"n":` + g.jnumber()
	case 4:
		return `"s":"x, y] z}"`
	}
	return `"k` + fmt.Sprint(g.intn(100)) + `":[[1],[2,[3]]]`
}
