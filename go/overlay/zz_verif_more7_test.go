//go:build verif

package mimetype

func (g *vfGen) runMore7(slice string) bool { return false }

func vfExecMore7(f []string, op string) (string, bool) { return "", false }
