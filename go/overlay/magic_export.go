//go:build verif

package magic

// Exports for the verification harness (overlay only).
func VerifDropLastLine(b []byte, l uint32) []byte { return dropLastLine(b, l) }
func VerifScanLine(b []byte) ([]byte, []byte)     { return scanLine(b) }
func VerifTarParseOctal(b []byte) int64            { return tarParseOctal(b) }
func VerifTarChksum(b []byte) (int64, int64)       { return tarChksum(b) }
func VerifZipContains(raw, sig []byte, mso bool) bool { return zipContains(raw, sig, mso) }
func VerifMatchOleClsid(in, clsid []byte) bool    { return matchOleClsid(in, clsid) }
