//go:build verif

package mimetype

import (
	"fmt"
	"mime"
	"sort"
	"strconv"
	"strings"
)

func vfParseRes(s string) string {
	t, ps, err := mime.ParseMediaType(s)
	cls := "none"
	if err != nil {
		switch {
		case err == mime.ErrInvalidMediaParameter:
			cls = "invalidParam"
		case strings.Contains(err.Error(), "duplicate"):
			cls = "duplicate"
		default:
			cls = "noType"
		}
	}
	var keys []string
	for k := range ps {
		keys = append(keys, k)
	}
	sort.Strings(keys)
	var kv []string
	for _, k := range keys {
		kv = append(kv, vfHex([]byte(k))+"="+vfHex([]byte(ps[k])))
	}
	p := "~"
	if len(kv) > 0 {
		p = strings.Join(kv, "&")
	}
	return vfHex([]byte(t)) + "|" + p + "|" + cls
}

func vfExecMore15(f []string, op string) (string, bool) {
	switch f[0] {
	case "fmt": // fmt typehex valhex
		return fmt.Sprintf("%s => %s", op, vfHex([]byte(mime.FormatMediaType(string(vfUnhex(f[1])), map[string]string{"charset": string(vfUnhex(f[2]))})))), true
	case "parse": // parse hex
		return fmt.Sprintf("%s => %s", op, vfParseRes(string(vfUnhex(f[1])))), true
	case "is": // is namehex shex : Lookup(name).Is(s), EqualsAny(s, name)
		m := Lookup(string(vfUnhex(f[1])))
		if m == nil {
			return op + " => NOLOOKUP", true
		}
		s := string(vfUnhex(f[2]))
		return fmt.Sprintf("%s => %s%s %s", op, vfBit(m.Is(s)), vfBit(EqualsAny(s, string(vfUnhex(f[1])))), vfHex([]byte(m.String()))), true
	case "eqany": // eqany shex thex
		return fmt.Sprintf("%s => %s", op, vfBit(EqualsAny(string(vfUnhex(f[1])), string(vfUnhex(f[2]))))), true
	case "xres", "xresn": // xres script hex lim : the same properties of a result on a tree enlarged by Extend calls
		if vfBuiltin == nil {
			vfBuiltin = vfSnapshot()
		}
		vfBuiltin.restore()
		defer vfBuiltin.restore()
		if err := vfApplyScript(f[1]); err != nil {
			return op + " => BADSCRIPT", true
		}
		r, _ := vfExecMore15([]string{"res", f[2], f[3]}, op)
		return r, true
	case "res": // res hex lim : properties of a detection result
		data := vfUnhex(f[1])
		lim64, _ := strconv.ParseUint(f[2], 10, 32)
		SetLimit(uint32(lim64))
		in, _ := vfExact(data)
		d := Detect(in)
		s := d.String()
		var parents []string
		n := 0
		for p := d.Parent(); p != nil && n < 64; p = p.Parent() {
			parents = append(parents, vfHex([]byte(p.String())))
			n++
		}
		ps := "~"
		if len(parents) > 0 {
			ps = strings.Join(parents, ",")
		}
		t, _, _ := mime.ParseMediaType(s)
		lk := Lookup(t)
		lkIs := "F"
		if lk != nil && lk.Is(s) {
			lkIs = "T"
		}
		// the result knows the aliases of its format
		aliasOK := "T"
		if lk != nil {
			for _, a := range lk.aliases {
				if !d.Is(a) || !d.Is("  "+strings.ToUpper(a)+" ; x=y") {
					aliasOK = "F"
				}
			}
		}
		return fmt.Sprintf("%s => %s %s %s %s%s%s%s", op, vfHex([]byte(s)), vfParseRes(s), ps, vfBit(d.Is(s)), vfBit(EqualsAny(s, s)), lkIs, aliasOK), true
	}
	return vfExecMore16(f, op)
}

func (g *vfGen) runMore15(slice string) bool {
	switch slice {
	case "C02":
		g.genC02()
	case "C15":
		g.genC15()
	default:
		return g.runMore16(slice)
	}
	return true
}

func (g *vfGen) hostileLabel() []byte {
	special := []byte{'"', '\\', ';', '=', '\'', '%', '*', '\r', '\n', '\t', 0x7F, 0x80, 0xFF, ' ', ',', '/', '(', '@', 0x00, 0x1F, 0xC3, 0xA9}
	n := 1 + g.intn(12)
	long := g.intn(8) == 0
	if long { // far longer than any registered charset name: mostly letters, a few bytes that need quoting
		n = 150 + g.intn(400)
		special = []byte{' ', '/', '=', ',', ';', '(', '@', '\\', '%', '*'}
	}
	b := make([]byte, n)
	for i := range b {
		if (!long && g.intn(2) == 0) || (long && g.intn(40) == 0) {
			b[i] = special[g.intn(len(special))]
		} else {
			b[i] = byte('a' + g.intn(26))
		}
	}
	return b
}

// labels made of letters and digits outside ASCII (valid UTF-8): not token characters, so the formatted
// parameter must be RFC 2231-encoded
var vfLetterLabels = []string{"\u00e9", "\u043a\u043e\u04388-\u0440", "\uff55\uff54\uff46-\uff18", "latin\u0661", "caf\u00e9-1", "\u00c9", "a\u0300", "\U0001d4ca", "\u00fcber.set_1+2"}

func (g *vfGen) genC02() {
	for _, l := range vfLetterLabels {
		for _, tmpl := range [][2]string{{"<html><meta charset=\"", "\"><body>x"}, {"<html><meta charset=", "><body>x"},
			{"<html><meta http-equiv=content-type content='text/html; charset=", "'>"}, {"<?xml version=\"1.0\" encoding=\"", "\"?><r/>"}} {
			g.emit(vfOp("res", []byte(tmpl[0]+l+tmpl[1]), 0))
			g.emit(vfOp("res", []byte(tmpl[0]+l+tmpl[1]), 3072))
		}
	}
	types := []string{"text/plain", "text/html", "text/xml"}
	// the formatter / parser models against the real mime package: all 1- and 2-byte labels
	for a := 0; a < 256; a++ {
		g.emit(vfOp("fmt", []byte(types[a%3]), []byte{byte(a)}))
		full := mime.FormatMediaType(types[a%3], map[string]string{"charset": string([]byte{byte(a)})})
		if full != "" {
			g.emit(vfOp("parse", []byte(full)))
		}
	}
	step := 7
	if g.thorough {
		step = 1
	}
	for a := 0; a < 256; a++ {
		for b := (a * 3) % step; b < 256; b += step {
			v := []byte{byte(a), byte(b)}
			g.emit(vfOp("fmt", []byte("text/html"), v))
			if full := mime.FormatMediaType("text/html", map[string]string{"charset": string(v)}); full != "" {
				g.emit(vfOp("parse", []byte(full)))
			}
		}
	}
	for i := 0; i < g.pick(3000, 200000); i++ {
		v := g.hostileLabel()
		t := types[g.intn(3)]
		g.emit(vfOp("fmt", []byte(t), v))
		if full := mime.FormatMediaType(t, map[string]string{"charset": string(v)}); full != "" {
			g.emit(vfOp("parse", []byte(full)))
		}
	}
	// documents declaring hostile labels, through Detect
	for i := 0; i < g.pick(1500, 60000); i++ {
		l := g.hostileLabel()
		var doc []byte
		switch g.intn(5) {
		case 0:
			doc = append(append([]byte("<html><meta charset=\""), l...), []byte("\"><body>x")...)
		case 1:
			doc = append(append([]byte("<html><meta charset='"), l...), []byte("'><body>x")...)
		case 2:
			doc = append(append([]byte("<html><meta http-equiv=content-type content=\"text/html; charset="), l...), []byte("\">")...)
		case 3:
			doc = append(append([]byte("<?xml version=\"1.0\" encoding=\""), l...), []byte("\"?><r/>")...)
		default:
			doc = append(append([]byte("<?xml version='1.0' encoding='"), l...), []byte("'?><r/>")...)
		}
		g.emit(vfOp("res", doc, 0))
	}
	// extension nodes registered with the three text types as aliases: the parameter rule is about
	// the node's own type, not about what it answers to
	{
		docs := [][]byte{
			[]byte("<html><meta charset=\"koi8-r\"><body>x"),
			[]byte("<?xml version=\"1.0\" encoding=\"iso-8859-5\"?><r/>"),
			[]byte("caf\xc3\xa9 au lait, plain text"),
			[]byte("plain ascii text\n"),
			{0xEF, 0xBB, 0xBF, 'b', 'o', 'm'},
		}
		textPath := "r"
		for i, c := range root.children {
			if c.mime == "text/plain" {
				textPath = strconv.Itoa(i)
			}
		}
		aliasSets := [][]string{{"text/html"}, {"text/plain"}, {"text/xml"}, {"text/html", "text/xml"}, {"TEXT/HTML"}, {"text/plain; charset=utf-8"}}
		for _, parent := range []string{"r", textPath} {
			for ai, as := range aliasSets {
				var hx []string
				for _, a := range as {
					hx = append(hx, vfHex([]byte(a)))
				}
				sc := fmt.Sprintf("%s:always:%s:%s:%s", parent, vfHex([]byte(fmt.Sprintf("application/x-verif-alias%d", ai))), vfHex([]byte(".va")), strings.Join(hx, "+"))
				for _, d := range docs {
					g.emit(vfOp("xwalk", sc, d, []uint32{0, 3072}[g.intn(2)]))
				}
			}
		}
	}
	// every corpus entry
	for _, c := range vfCorpus() {
		if len(c) > 1<<16 {
			c = c[:1<<16]
		}
		g.emit(vfOp("res", c, 0))
		g.emit(vfOp("res", c, 3072))
	}
	// error paths: the value returned with an error is exactly application/octet-stream
	for i := 0; i < 40; i++ {
		g.emit(vfOp("reader", []int{0, 16, 3072}[g.intn(3)], g.textBytes(60), "~", 0, g.intn(30)))
	}
	g.emit("filebad missing")
	g.emit("filebad dir")
}

func (g *vfGen) decorate(name string) string {
	b := []byte(name)
	for i := range b {
		if g.intn(3) == 0 && b[i] >= 'a' && b[i] <= 'z' {
			b[i] -= 32
		}
	}
	s := string(b)
	ws := []string{"", " ", "  ", "\t", " \t "}
	s = ws[g.intn(len(ws))] + s + ws[g.intn(len(ws))]
	params := []string{"", "; charset=utf-8", ";charset=\"iso-8859-1\"", "; q=0.8", "; a=b; c=\"d e\"", "; charset*=utf-8''caf%C3%A9", " ; x=y ", ";", "; boundary=\"--x;y\""}
	return s + params[g.intn(len(params))]
}

func (g *vfGen) genC15() {
	// every registered name and alias, decorated
	mu.RLock()
	nodes := root.flatten()
	mu.RUnlock()
	var names []string
	for _, n := range nodes {
		names = append(names, n.mime)
		names = append(names, n.aliases...)
	}
	reps := g.pick(4, 60)
	for _, n := range names {
		g.emit(vfOp("is", []byte(n), []byte(n)))
		for r := 0; r < reps; r++ {
			g.emit(vfOp("is", []byte(n), []byte(g.decorate(n))))
		}
		// a different registered name must not match (unless alias / same type)
		o := names[g.intn(len(names))]
		g.emit(vfOp("is", []byte(n), []byte(g.decorate(o))))
		// names that strictly extend the type (font/woff vs font/woff2)
		g.emit(vfOp("eqany", []byte(n), []byte(n+"2; q=0.8")))
		g.emit(vfOp("eqany", []byte(n), []byte(g.decorate(n))))
	}
	// parser model on arbitrary ASCII strings
	for i := 0; i < g.pick(3000, 100000); i++ {
		n := names[g.intn(len(names))]
		s := g.decorate(n)
		if g.intn(3) == 0 {
			j := g.intn(len(s) + 1)
			s = s[:j] + string("=;\"\\/ *'%"[g.intn(9)]) + s[j:]
		}
		g.emit(vfOp("parse", []byte(s)))
	}
	// detection results (including quoted and RFC 2231 encoded charset parameters)
	for i := 0; i < g.pick(600, 20000); i++ {
		l := g.hostileLabel()
		doc := append(append([]byte("<html><meta charset=\""), l...), []byte("\"><body>x")...)
		if g.intn(2) == 0 {
			doc = append(append([]byte("<?xml version=\"1.0\" encoding=\""), l...), []byte("\"?><r/>")...)
		}
		g.emit(vfOp("res", doc, 0))
	}
	// labels that look like further parameters, a second charset, a type, or need no quoting at all
	for _, l := range []string{"\u00e9", "\u043a\u043e\u04388-\u0440", "\uff55\uff54\uff46-\uff18", "latin\u0661", "caf\u00e9-1", "x\u00a0y", "\u00c9", "a\u0300", "\U0001d4ca", "utf-8;charset=latin1", "a;b=c", "x;charset=y", "koi8-r;", ";", "a=b", "text/html", "a,b", "x;q=1;charset=z",
		"utf-8;CHARSET=x", "a;charset", "(x)", "a@b", "x?y", "[1]", "a:b", "<x>", "l1;charset=l2;charset=l3"} {
		for _, tmpl := range [][2]string{{"<html><meta charset=\"", "\"><body>x"}, {"<html><meta charset='", "'><body>x"},
			{"<html><meta http-equiv=content-type content='text/html; charset=\"", "\"'>"}, {"<?xml version=\"1.0\" encoding=\"", "\"?><r/>"}} {
			g.emit(vfOp("res", []byte(tmpl[0]+l+tmpl[1]), 0))
		}
	}
	// results of extensions registered under names that are not in normal form (upper case, blanks, a parameter)
	// and with such aliases: the result Is its own String(), Lookup of its bare type Is it, it knows its aliases
	for _, nm := range []string{"Application/X-Verif-Upper", "application/X-VERIF-mixed", " application/x-verif-blank ", "application/x-verif-param; v=1", "text/plain", "TEXT/HTML"} {
		for _, parent := range []string{"r", "0", "3"} {
			for _, al := range []string{"~", vfHex([]byte("Application/X-Verif-Alias")) + "+" + vfHex([]byte("application/x-verif-alias2; q=1")),
				// several aliases in no particular order (descending, shuffled, one a prefix of another)
				vfHex([]byte("application/x-verif-zz")) + "+" + vfHex([]byte("application/x-verif-aa")),
				vfHex([]byte("application/x-verif-mm")) + "+" + vfHex([]byte("application/x-verif-zz")) + "+" + vfHex([]byte("application/x-verif-aa")) + "+" + vfHex([]byte("application/x-verif")) + "+" + vfHex([]byte("text/x-verif-b")) + "+" + vfHex([]byte("audio/x-verif-c"))} {
				sc := fmt.Sprintf("%s:always:%s:%s:%s", parent, vfHex([]byte(nm)), vfHex([]byte(".vu")), al)
				for _, in := range [][]byte{[]byte("plain text"), {}, []byte("%PDF-1.4"), []byte("<html><body>caf\xe9")} {
					g.emit(vfOp("xres", sc, in, 0))
				}
			}
		}
	}
	// the same with names and aliases in normal form, several aliases in no particular order (descending, shuffled, one a
	// prefix of another, other top-level types): the result knows every one of them
	for _, parent := range []string{"r", "0", "3"} {
		for _, al := range []string{vfHex([]byte("application/x-verif-zz")) + "+" + vfHex([]byte("application/x-verif-aa")),
			vfHex([]byte("application/x-verif-mm")) + "+" + vfHex([]byte("application/x-verif-zz")) + "+" + vfHex([]byte("application/x-verif-aa")) + "+" + vfHex([]byte("application/x-verif")) + "+" + vfHex([]byte("text/x-verif-b")) + "+" + vfHex([]byte("audio/x-verif-c")),
			vfHex([]byte("b/b")) + "+" + vfHex([]byte("a/a")) + "+" + vfHex([]byte("c/c"))} {
			sc := fmt.Sprintf("%s:always:%s:%s:%s", parent, vfHex([]byte("application/x-verif-normal")), vfHex([]byte(".vn")), al)
			for _, in := range [][]byte{[]byte("plain text"), {}, []byte("%PDF-1.4"), []byte("PK\x03\x04")} {
				g.emit(vfOp("xresn", sc, in, 0))
			}
		}
	}
	// Extend called twice with the same type on the same parent, the second time with aliases:
	// every registered alias must resolve
	for _, parent := range []string{"r", "0", "3"} {
		mt := vfHex([]byte("application/x-verif-dup"))
		a1, a2 := vfHex([]byte("application/x-verif-dup-alias")), vfHex([]byte("application/x-verif-dup-alias2"))
		sc := fmt.Sprintf("%s:never:%s:%s:~;%s:never:%s:%s:%s+%s", parent, mt, vfHex([]byte(".vd")), parent, mt, vfHex([]byte(".vd")), a1, a2)
		g.emit(vfOp("xlookup", sc, []byte("application/x-verif-dup")))
		g.emit(vfOp("xlookup", sc, []byte("application/x-verif-dup-alias")))
		g.emit(vfOp("xlookup", sc, []byte("application/x-verif-dup-alias2")))
		g.emit(vfOp("xwalk", sc, []byte("plain text"), 0))
	}
	for _, c := range vfCorpus() {
		if len(c) <= 1<<16 {
			g.emit(vfOp("res", c, 0))
		}
	}
}
