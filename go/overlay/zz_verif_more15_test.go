//go:build verif

package mimetype

func (g *vfGen) runMore15(slice string) bool { return false }

func vfExecMore15(f []string, op string) (string, bool) { return "", false }
