"""Per-property configuration of ./check: which harness slices are run, which
model-vs-implementation differences are relevant to the property's theorems, and what
is trusted.  (DESIGN.md §6: slices are per property so that unrelated properties stay
quiet.)"""
import re


def dets_only(*names):
    """relevant: walk differences, and verdict differences of the named detectors only"""
    ns = set(names)
    def f(part, op):
        if part.startswith("DIFF verdicts "):
            items = part[len("DIFF verdicts "):].split(";")
            return any(i.split(":")[0] in ns for i in items)
        if part.startswith("DIFF det:"):
            return part[len("DIFF det:"):].split()[0] in ns
        if part.startswith("DIFF closed-detect") or part.startswith("DIFF htmltok") or part.startswith("DIFF xmlinst"):
            return False   # consequences of some model's difference; the specific DIFF of that model is what counts
        return True
    return f


def walk_only(part, op):
    """relevant: the walk / tree shape, not individual detector models"""
    return not (part.startswith("DIFF verdicts ") or part.startswith("DIFF det:") or part.startswith("DIFF leaf")
                or part.startswith("DIFF closed-detect") or part.startswith("DIFF htmltok") or part.startswith("DIFF xmlinst"))


def walk_not_shape(part, op):
    """C03: the walk over whatever tree the runtime has; the shape produced by Extend is C14's business"""
    return walk_only(part, op) and not part.startswith("DIFF tree-after-extend") and not part.startswith("DIFF xwalk ")


def anything(part, op):
    return True


COMMON_ASSUME = [
    "Go slice/append semantics, bytes.* and strings.* primitives have their list semantics",
    "linux/amd64, 64-bit int",
]

PROPS = {
    "C01": {
        "slices": ["tree", "dets", "C01", "C05", "C14", "C16"],
        "relevant_diff": anything,
        "assumptions": COMMON_ASSUME + ["panic-freedom and termination of encoding/csv, encoding/xml, x/net/html, time.Parse, bufio are exercised, not proved"],
        "trusted_base": ["translated signature expressions (BExp) regenerated each run; hand models of zipContains, matchOleClsid, CRX, matroska, ciCheck/markupCheck/shebangCheck with checked indexing"],
    },
    "C03": {
        "slices": ["tree", "corpus", "C03", "heap"],
        "relevant_diff": walk_not_shape,
        "assumptions": COMMON_ASSUME + ["detectors are arbitrary functions of (header, limit) in the theorems"],
        "trusted_base": ["mime.go match/cloneHierarchy hand-modelled as Tree.walk; tied by walk ops (real verdict vector -> model walk = real Detect chain)", "pointer level: newMIME/Extend/match/clone/cloneHierarchy/lookup/Parent transcribed over a heap (Model/Heap.lean); tied by heap ops (every node of the real pointer structure - name, parent pointer, children pointers - equals the model heap after every operation of a random history on a private tree) and realheap ops (the registered tree satisfies the decidable representation invariant, Model/HeapAbs.lean)"],
    },
    "C14": {
        "slices": ["tree", "C14", "heap"],
        "relevant_diff": walk_only,
        "assumptions": COMMON_ASSUME + ["extension names are fresh for the Lookup clause (DESIGN.md §9)"],
        "trusted_base": ["(*MIME).Extend / lookup hand-modelled as Tree.extendAt / Tree.lookup; tied by xwalk/xlookup ops (runtime tree dump after every script = model tree)", "pointer level: Model/Heap.lean tied by heap / realheap ops (whole-heap comparison after every operation; representation invariant decided on the dumped heaps)"],
    },
    "C05": {
        "slices": ["C05", "big"],
        "relevant_diff": anything,
        "assumptions": COMMON_ASSUME + ["*os.File behaves as a conforming io.Reader", "io.ReadFull / io.ReadAll hand-modelled (Reader.lean)"],
        "trusted_base": ["DetectReader control flow hand-modelled; tie: scripted-reader ops (delivered count, error class, result vs Detect)"],
    },
    "C17": {
        "slices": ["tree", "dets", "C17"],
        "relevant_diff": anything,
        "assumptions": COMMON_ASSUME + ["headers are shorter than 4 GiB (the limit is a uint32; with limit 0 inputs of 4 GiB or more are outside the theorem: CRX compares uint32(len))"],
        "trusted_base": ["root-level signature checks: translated BExp (regenerated) or hand models of Tar, CRX, WebM, Mkv; tie: det ops on boundary inputs + limit-pair ops"],
    },
    "C18": {
        "slices": ["tree", "C18"],
        "relevant_diff": dets_only("Tar"),
        "assumptions": COMMON_ASSUME + ["'conforming writer' = checksum field holds the unsigned sum as six octal digits, NUL, space (archive/tar, GNU tar, BSD tar)", "first member name is not a Gentoo gpkg name (DESIGN.md §9)"],
        "trusted_base": ["magic.Tar, tarParseOctal, tarChksum hand-modelled; tree.go regenerated; tie: det/tar ops on archive/tar output"],
    },
    "C19": {
        "slices": ["tree", "C19"],
        "relevant_diff": (lambda f: (lambda part, op: part.startswith("DIFF ziplayout") or f(part, op)))(dets_only("Xlsx", "Docx", "Pptx", "Jar", "APK", "Zip", "Epub", "Odt", "Ott", "Ods", "Ots", "Odp", "Otp", "Odg", "Otg", "Odf", "Odc", "Sxc")),
        "assumptions": COMMON_ASSUME + ["archives come from a standard zip writer; bodies contain no PK\\x03\\x04; entries of realistic length (>= 26 bytes after the 30-byte header) — the statement's own qualifiers"],
        "trusted_base": ["zipContains hand-modelled (Prims.lean); zip children regenerated; tie: walk ops on archive/zip output + oracle from the entry list read back with archive/zip"],
    },
    "C08": {
        "slices": ["C08", "C06"],
        "relevant_diff": dets_only("JSON", "GeoJSON", "HAR", "GLTF", "Text"),
        "assumptions": COMMON_ASSUME,
        "trusted_base": ["internal/json/parser.go and jsonHelper hand-modelled (Model/Json.lean); tie: jparse/jdoc/jany ops"],
    },
    "C09": {
        "slices": ["C09"],
        "relevant_diff": dets_only("JSON", "GeoJSON", "HAR", "GLTF", "Text"),
        "assumptions": COMMON_ASSUME,
        "trusted_base": ["internal/json/parser.go and jsonHelper hand-modelled (Model/Json.lean); tie: jparse/jany ops, exhaustive over a 16-symbol alphabet"],
    },
    "C10": {
        "slices": ["C10"],
        "relevant_diff": dets_only("JSON", "GeoJSON", "HAR", "GLTF"),
        "assumptions": COMMON_ASSUME + ["keys and deciding values spelled without escape sequences"],
        "trusted_base": ["queries regenerated from parser.go; scanner hand-modelled; tie: jparse with every query + jsub ops against an AST-level oracle"],
    },
    "C11": {
        "slices": ["charset", "C11"],
        "relevant_diff": lambda part, op: part.startswith("DIFF cs-") or part.startswith("DIFF leaf"),
        "assumptions": COMMON_ASSUME + ["unicode/utf8.Valid / RuneStart hand-modelled (Charset.utf8Valid)"],
        "trusted_base": ["FromPlain/latin/ascii hand-modelled; boms and textChars regenerated; tie: cs plain ops exhaustive over a byte-class alphabet"],
    },
    "C13": {
        "slices": ["C13"],
        "relevant_diff": lambda part, op: part.startswith("DIFF det:NdJSON") or part.startswith("DIFF det:Csv") or part.startswith("DIFF det:Tsv") or part.startswith("DIFF dropLastLine") or part.startswith("DIFF jparse"),
        "assumptions": COMMON_ASSUME + ["encoding/csv (go1.23) is hand-modelled byte-wise in the configuration sv uses (Model/Csv.lean): LazyQuotes, Comment '#', ReuseRecord, FieldsPerRecord 0; bufio.Reader and the 4096-byte buffer make no observable difference (exercised with lines over 4096/8192 bytes)"],
        "trusted_base": ["NdJSON, dropLastLine, scanLine, sv and the encoding/csv reader hand-modelled; tie: lines/dll ops at every limit from the end of line 2, Csv/Tsv verdicts of the model compared on every lines/det/walk op: exhaustive strings over {a , \" LF CR # TAB} up to length 5/6, quoted / lazily quoted / multi-line cells, comments, bare CR, BOMs, lines over 4096 bytes"],
        "partial": ["a cut inside a quoted cell that spans lines is outside the forward theorems (dropLastLine cuts at the last LF even inside quotes; such input can be refused: sv_cut_inside_quoted_cell)"],
    },
    "C12": {
        "slices": ["C12"],
        "relevant_diff": lambda part, op: part.startswith("DIFF cs-") or part.startswith("DIFF meta") or part.startswith("DIFF xmlenc") or part.startswith("DIFF xmlinst") or part.startswith("DIFF htmltok"),
        "assumptions": COMMON_ASSUME + ["x/net/html tokenizer is hand-modelled (Model/HtmlTok.lean, v0.39.0; character references in attribute values: Model/HtmlUnescape.lean over the regenerated entity tables) and compared with the library on every walk / cs html op; encoding/xml's first raw token is hand-modelled (Model/XmlTok.lean, name tables of go1.23.5) and compared with the library on every walk / cs xml op; strings.ToLower on the XML label is hand-modelled for every byte string (Model/ToLower.lean over the regenerated simple case mapping of the installed toolchain)",
                                        "in the theorems labels are token characters other than '&' (a label written with references declares the decoded label: exercised by the decl ops, not a theorem)"],
        "trusted_base": ["fromHTML prescan, fromMetaElement, xmlEncoding, FromBOM hand-modelled; tie: cs html/xml ops fed with the real token stream, meta/xmlenc ops on raw strings, decl ops through Detect"],
    },
    "C04": {
        "slices": ["C04", "C09", "C05"],
        "relevant_diff": lambda part, op: part.startswith("DIFF jparse") or part.startswith("DIFF jany"),
        "assumptions": COMMON_ASSUME + ["sync.Pool returns a previously Put value or New(); bufio.Reader.Reset discards buffered data (trusted)"],
        "trusted_base": ["Parse/reset hand-modelled; parserState fields, reset assignments, pool constructor and index writes regenerated; tie: hist/dhist ops (pooled vs fresh state, repeated detections, canary-guarded input buffers)"],
    },
    "C16": {
        "slices": ["C16"],
        "relevant_diff": lambda part, op: part.startswith("DIFF jparse") or part.startswith("DIFF jcap"),
        "assumptions": COMMON_ASSUME + ["the frame size of the scanner functions and Go's stack limit are runtime matters"],
        "trusted_base": ["scanner hand-modelled with the Go `lvl` argument explicit; cap facts regenerated; tie: jcap ops at caps 1..6 and the real cap +-1, bomb runs in a child process with an 8 MiB stack"],
    },
    "C06": {
        "slices": ["C06"],
        "race": True,
        "relevant_diff": anything,
        "assumptions": COMMON_ASSUME + ["Go memory model; sync.RWMutex, sync/atomic, sync.Pool behave as documented; the race detector reports the races that occur in the explored schedules"],
        "trusted_base": ["lock/atomic event programs regenerated from mimetype.go / mime.go (Gen/Sync.lean); abstract RWMutex semantics (Model/Sync.lean); tie: exact event lists + race-detector stress + limit-flip ops"],
        "partial": ["the theorem is about the locking protocol; data races inside sync, torn reads, and real schedules are explored with -race, not proved"],
    },
    "C02": {
        "slices": ["tree", "C02", "C14"],
        "relevant_diff": lambda part, op: part.startswith("DIFF fmt") or part.startswith("DIFF parse") or part.startswith("DIFF leaf") or part.startswith("DIFF treeeq") or part.startswith("DIFF reader"),
        "assumptions": COMMON_ASSUME + ["mime.FormatMediaType / ParseMediaType hand-modelled byte-wise (go1.23 source); ASCII white space only"],
        "trusted_base": ["clone/cloneHierarchy/match hand-modelled; registered names regenerated; tie: fmt/parse ops (all 1- and 2-byte labels + hostile labels), res ops with the real mime.ParseMediaType as oracle"],
    },
    "C15": {
        "slices": ["tree", "C15", "isx"],
        "relevant_diff": lambda part, op: part.startswith("DIFF is") or part.startswith("DIFF eqany") or part.startswith("DIFF parse") or part.startswith("DIFF tree") or part.startswith("DIFF xlookup"),
        "assumptions": COMMON_ASSUME + ["mime.ParseMediaType is hand-modelled for arbitrary byte strings (Model/MediaTypeU.lean: Unicode white space, Unicode lower-casing as far as it can reach ASCII, invalid UTF-8; go1.23.5 / Unicode 15), validated on 9.7 M inputs when written and compared with the real package on every isx / eqanyx op"],
        "trusted_base": ["Is / EqualsAny / lookup hand-modelled over the ParseMediaType model; names and aliases regenerated; tie: is/eqany/parse/res ops over every registered name and alias x decorations"],
    },
    "C07": {
        "slices": ["tree", "C07", "corpus", "C05", "big"],
        "relevant_diff": dets_only("Text"),
        "assumptions": COMMON_ASSUME,
        "trusted_base": ["magic.Text hand-modelled (Cust.text); BOM table regenerated from charset.go"],
    },
}
