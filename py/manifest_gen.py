#!/usr/bin/env python3
"""Regenerates MANIFEST.json from py/props.py and py/manifest_text.py."""
import json, os, sys
sys.path.insert(0, os.path.dirname(__file__))
from props import PROPS
from manifest_text import TEXT, NOT_YET
VERIF = os.path.dirname(os.path.dirname(os.path.abspath(__file__)))
ids = [json.loads(l)["id"] for l in open(os.path.join(VERIF, "properties.jsonl"))]
checks = []
for p in ids:
    if p not in PROPS or p not in TEXT:
        continue
    t = TEXT[p]
    checks.append({
        "property_id": p,
        "quick_cmd": f"./check {p} quick",
        "thorough_cmd": f"./check {p} thorough",
        "evidence_file": f"/verif/evidence/{p}.json",
        "replay_cmd_template": "./check replay {path}",
        "engine": "lean4-model",
        "level_claimed": {"category": "proof", "text": t["level"], "design_ref": t.get("ref", "DESIGN.md §7 " + p)},
        "level_note": t["note"],
        "technique": t["technique"],
    })
m = {
    "version": 1,
    "setup_cmd": "./check prepare",
    "hooks": {
        "guard": "verif",
        "enable": "go test -c -vet=off -tags verif -overlay /verif/build/overlay.json (files of /verif/go/overlay and the generated detector registry are injected virtually into packages mimetype, internal/magic, internal/json, internal/charset; nothing is written into /repo)",
        "baseline_off_cmd": "cd /repo && go test -vet=off -count=1 ./...",
        "source_commits": [],
        "add_only": True,
    },
    "engines": [{"name": "lean4-model", "path": "/verif/lean", "serves_properties": [c["property_id"] for c in checks],
                 "kind_free_text": "Lean 4 executable model + theorems (MimeModel/Props), tied to /repo by a go/ast extractor regenerating MimeModel/Gen and by a differential harness (Go overlay test binary vs compiled Lean driver)"}],
    "checks": checks,
    "not_applicable": [{"property_id": p, "reason": NOT_YET.get(p, "check not yet built in this commit (see DESIGN.md §12 build order)")}
                       for p in ids if p not in [c["property_id"] for c in checks]],
    "notes": "All checks share ./check prepare (extractor -> Gen/*.lean, overlay harness build, lake build). See DESIGN.md.",
}
json.dump(m, open(os.path.join(VERIF, "MANIFEST.json"), "w"), indent=1)
print("claimed:", [c["property_id"] for c in checks])
