#!/bin/bash
# usage: try_mut.sh <patch.diff> <prop> [<prop>...]   — apply to /repo, run quick checks, revert
P=$1; shift
cd /repo && git apply "$P" || { echo "APPLY FAILED $P"; exit 2; }
export VERIF_EVIDENCE_DIR=/tmp/vf-mut-evidence VERIF_REPLAY_DIR=/tmp/vf-mut-replays
for prop in "$@"; do
  out=$(cd /verif && ./check $prop quick 2>&1 | tail -3)
  echo "[$prop] $out"
done
git -C /repo checkout -- . && git -C /repo clean -fdq
