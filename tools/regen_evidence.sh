#!/bin/bash
# Evidence files are rewritten by every run, also by runs against a changed tree (seeded changes, mutants).
# Before committing: /repo must be clean, then every quick check is run once on the unchanged tree.
cd /verif
if [ -n "$(git -C /repo status --porcelain)" ]; then echo "/repo is not clean"; exit 1; fi
rc=0
for p in C01 C02 C03 C04 C05 C06 C07 C08 C09 C10 C11 C12 C13 C14 C15 C16 C17 C18 C19; do
  out=$(./check $p quick 2>&1 | tail -1); echo "$out"
  case "$out" in OK*) ;; *) rc=1;; esac
done
rm -f replays/*-quick-1.json replays/*-thorough-*.json 2>/dev/null
exit $rc
