#!/bin/bash
# usage: sweep_round.sh <out> <suffix>...   — confirmed seeded changes whose id ends in one of the suffixes (e.g. m7 m8)
OUT=$1; shift
: > $OUT
export VERIF_EVIDENCE_DIR=/tmp/vf-mut-evidence VERIF_REPLAY_DIR=/tmp/vf-mut-replays
for suf in "$@"; do
for d in /verif/seeded/C*-$suf; do
  id=$(basename $d); prop=${id%%-*}
  cd /repo && git apply $d/patch.diff || { echo "$id APPLY-FAILED" >> $OUT; continue; }
  res=$(cd /verif && ./check $prop quick 2>&1 | tail -1)
  echo "$id $res" >> $OUT
  git -C /repo checkout -- . && git -C /repo clean -fdq
done
done
echo DONE >> $OUT
