#!/bin/bash
# usage: tools/coverage.sh [tier] [outdir]
# Statement coverage of the *library* code (mimetype + internal/*) reached by the correspondence
# generators of every slice: which statements of the hand-modelled functions no generated input
# executes (a change there would be invisible to tie 2).  Not a check; a measuring tool.
set -e
TIER=${1:-quick}; OUT=${2:-/tmp/vf-cover}
export GOFLAGS=-mod=mod GOPROXY=off GOSUMDB=off GOTOOLCHAIN=local
REPO=${VERIF_REPO:-/repo}
cd /verif && ./check prepare >/dev/null
rm -rf $OUT; mkdir -p $OUT
# `go tool cover` (go1.23) does not read overlays: materialise them in a scratch copy of the tree
rsync -a --exclude .git $REPO/ $OUT/repo/
python3 - $REPO $OUT/repo <<'PY'
import json,shutil,sys
ov=json.load(open('/verif/build/overlay.json'))['Replace']
for dst,src in ov.items():
    shutil.copy(src, dst.replace(sys.argv[1], sys.argv[2], 1))
PY
(cd $OUT/repo && go test -c -cover -coverpkg=./... -vet=off -tags verif -o $OUT/hc.test .)
REPO=$OUT/repo
SLICES="tree corpus dets C01 C02 C03 C04 C05 C06 C07 C08 C09 C10 C11 C12 C13 C14 C15 C16 C17 C18 C19 charset json heap big isx"
for s in $SLICES; do
  ( cd $REPO && VERIF_COVER=1 VERIF_CMD=gen VERIF_SLICE=$s VERIF_SEED=${VERIF_SEED:-1} VERIF_TIER=$TIER VERIF_FACTS=/verif/build/facts.json \
    $OUT/hc.test -test.run='^$' -test.coverprofile=$OUT/$s.prof >/dev/null 2>$OUT/$s.err || echo "slice $s rc=$?" ) &
done
wait
python3 - $OUT <<'PY'
import sys,glob,collections,re
out=sys.argv[1]
cov=collections.defaultdict(int); stmts={}
for f in glob.glob(out+'/*.prof'):
    for line in open(f):
        if line.startswith('mode:'): continue
        loc,n,c=line.rsplit(' ',2)
        stmts[loc]=int(n); cov[loc]+=int(c)
byfile=collections.defaultdict(list)
for loc,n in stmts.items():
    f,r=loc.split(':')
    if 'zz_verif' in f: continue
    byfile[f].append((r,n,cov[loc]))
tot=hit=0
with open(out+'/uncovered.txt','w') as w:
    for f in sorted(byfile):
        t=sum(n for _,n,_ in byfile[f]); h=sum(n for _,n,c in byfile[f] if c>0)
        tot+=t; hit+=h
        w.write(f"{f}: {h}/{t}\n")
        for r,n,c in sorted(byfile[f], key=lambda x:[int(y) for y in re.split('[.,]',x[0])]):
            if c==0: w.write(f"   uncovered {r} ({n} stmts)\n")
print(f"library statements covered by the generators: {hit}/{tot}")
PY
rm -rf $OUT/repo $OUT/hc.test
echo "details: $OUT/uncovered.txt"
