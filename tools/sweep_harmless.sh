#!/bin/bash
# usage: sweep_harmless.sh — every behaviour-preserving change kept under harmless/ against EVERY property's quick
# check (a harmless change must raise no alarm anywhere).  Works on $VERIF_REPO like sweep_all.sh.
HERE=$(cd $(dirname $0)/.. && pwd)
export VERIF_REPO=${VERIF_REPO:-${VP_RUN_REPO:-/repo}}
export VERIF_EVIDENCE_DIR=$(mktemp -d) VERIF_REPLAY_DIR=$(mktemp -d)
cd $HERE && ./check prepare >/dev/null 2>&1
for d in $HERE/harmless/*/; do
  id=$(basename $d)
  ( cd $VERIF_REPO && git apply $d/patch.diff ) || { echo "$id APPLY-FAILED"; continue; }
  ( cd $VERIF_REPO && GOFLAGS=-mod=mod GOPROXY=off GOSUMDB=off GOTOOLCHAIN=local go test -vet=off -count=1 ./... >/dev/null 2>&1 ) || echo "$id SUITE-FAILS"
  for p in C01 C02 C03 C04 C05 C06 C07 C08 C09 C10 C11 C12 C13 C14 C15 C16 C17 C18 C19; do
    res=$(cd $HERE && ./check $p quick 2>&1 | tail -1)
    case "$res" in OK*) ;; *) echo "$id $p $res"; cp $VERIF_REPLAY_DIR/$p-quick-1.json $HERE/harmless/$id.$p.replay.json 2>/dev/null;; esac
  done
  echo "$id done"
  git -C $VERIF_REPO checkout -- . && git -C $VERIF_REPO clean -fdq
done
rm -rf $VERIF_EVIDENCE_DIR $VERIF_REPLAY_DIR
echo SWEEP-DONE
