#!/bin/bash
# usage: sweep_harmless.sh — every behaviour-preserving change kept under harmless/ against the whole machinery
# (`check allslices`: extractor, every theorem of every property, every correspondence slice of every property;
# the race stress of C06 is not part of it).  A harmless change should be met with silence.
HERE=$(cd $(dirname $0)/.. && pwd)
export VERIF_REPO=${VERIF_REPO:-${VP_RUN_REPO:-/repo}}
cd $HERE && ./check prepare >/dev/null 2>&1
for d in $HERE/harmless/*/; do
  id=$(basename $d)
  ( cd $VERIF_REPO && git apply $d/patch.diff ) || { echo "$id APPLY-FAILED"; continue; }
  ( cd $VERIF_REPO && GOFLAGS=-mod=mod GOPROXY=off GOSUMDB=off GOTOOLCHAIN=local go test -vet=off -count=1 ./... >/dev/null 2>&1 ) || echo "$id SUITE-FAILS"
  out=$(cd $HERE && ./check allslices quick 2>&1 | grep "^NOTICED\|^ALLSLICES")
  echo "$id $(echo "$out" | tail -1)"
  echo "$out" | grep "^NOTICED" | sed "s/^/   $id /" | cut -c1-400
  git -C $VERIF_REPO checkout -- . && git -C $VERIF_REPO clean -fdq
done
echo SWEEP-DONE
