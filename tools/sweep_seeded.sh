#!/bin/bash
# usage: sweep_seeded.sh [out]   — every confirmed seeded change against its own property's quick check
OUT=${1:-/tmp/vf-sweep.log}
: > $OUT
export VERIF_EVIDENCE_DIR=/tmp/vf-mut-evidence VERIF_REPLAY_DIR=/tmp/vf-mut-replays
for d in /verif/seeded/C*-m*; do
  id=$(basename $d); prop=${id%%-*}
  cd /repo && git apply $d/patch.diff || { echo "$id APPLY-FAILED" >> $OUT; continue; }
  res=$(cd /verif && ./check $prop quick 2>&1 | tail -1)
  echo "$id $res" >> $OUT
  git -C /repo checkout -- . && git -C /repo clean -fdq
done
echo DONE >> $OUT
