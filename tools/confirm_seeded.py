#!/usr/bin/env python3
"""Confirm every candidate in seeded_pending/ in a scratch worktree of /repo's HEAD:
 (i) unchanged tree + demo passes, (ii) changed tree builds and the full suite passes (demo absent),
 (iii) changed tree + demo fails.  Confirmed ones are copied to seeded/<id>/ with meta.json."""
import json, os, shutil, subprocess, sys
ENV = dict(os.environ, GOFLAGS="-mod=mod", GOPROXY="off", GOSUMDB="off", GOTOOLCHAIN="local")
WT = "/tmp/vf-confirm-wt"
def sh(cmd, cwd=None, timeout=900):
    p = subprocess.run(cmd, cwd=cwd, env=ENV, shell=isinstance(cmd, str), stdout=subprocess.PIPE, stderr=subprocess.STDOUT, text=True, errors="replace", timeout=timeout)
    return p.returncode, p.stdout
def clean():
    sh("git checkout -- . && git clean -fdq", cwd=WT)
sh(f"git -C /repo worktree remove --force {WT}")
rc, out = sh(f"git -C /repo worktree add -q --detach {WT} HEAD")
head = sh("git -C /repo rev-parse --short HEAD")[1].strip()
results = {}
try:
    results = json.load(open("/verif/seeded/confirmation.json"))
except Exception:
    results = {}
only = sys.argv[1:]
for pid in sorted(os.listdir("/verif/seeded_pending")):
    for m in sorted(os.listdir(f"/verif/seeded_pending/{pid}")):
        d = f"/verif/seeded_pending/{pid}/{m}"
        if not os.path.isdir(d) or (only and pid not in only):
            continue
        if results.get(f"{pid}/{m}") == "confirmed" and os.path.isdir(f"/verif/seeded/{pid}-{m}"):
            continue
        meta = json.load(open(f"{d}/meta.json"))
        tgt = meta.get("demo_target_dir", ".") or "."
        demo_dst = os.path.join(WT, tgt, "zz_demo_test.go")
        race = "-race" if "-race" in json.dumps(meta.get("ran", "")) else ""
        clean()
        ran = []
        shutil.copy(f"{d}/demo_test.go", demo_dst)
        rc1, o1 = sh(f"go test -vet=off -count=1 {race} -run 'TestDemo$' ./{tgt}", cwd=WT)
        ran.append(f"(i) unchanged tree @{head} + demo: go test {race} -run TestDemo$ ./{tgt} -> {'PASS' if rc1 == 0 else 'FAIL'}")
        clean()
        rca, oa = sh(f"git apply {d}/patch.diff", cwd=WT)
        if rca != 0:
            results[f"{pid}/{m}"] = "patch does not apply to the current tree"
            continue
        rcb, ob = sh("go build ./...", cwd=WT)
        rc2, o2 = sh("go test -vet=off -count=1 ./...", cwd=WT)
        ran.append(f"(ii) changed tree, demo absent: go build ./... -> {'ok' if rcb == 0 else 'FAIL'}; go test -vet=off -count=1 ./... -> {'PASS' if rc2 == 0 else 'FAIL'}")
        shutil.copy(f"{d}/demo_test.go", demo_dst)
        rc3, o3 = sh(f"go test -vet=off -count=1 {race} -run 'TestDemo$' ./{tgt}", cwd=WT)
        ran.append(f"(iii) changed tree + demo: -> {'PASS' if rc3 == 0 else 'FAIL'}")
        ok = rc1 == 0 and rcb == 0 and rc2 == 0 and rc3 != 0
        results[f"{pid}/{m}"] = "confirmed" if ok else "NOT confirmed: " + "; ".join(ran)
        if ok:
            dst = f"/verif/seeded/{pid}-{m}"
            os.makedirs(dst, exist_ok=True)
            shutil.copy(f"{d}/patch.diff", dst)
            shutil.copy(f"{d}/demo_test.go", dst)
            json.dump({"breaks_property": pid, "summary": meta.get("summary"), "needs_to_manifest": meta.get("needs"),
                       "demo_target_dir": tgt, "confirmed_against_repo_commit": head, "confirmation_ran": ran,
                       "author_ran": meta.get("ran")}, open(f"{dst}/meta.json", "w"), indent=1)
        print(pid, m, results[f"{pid}/{m}"][:200], flush=True)
clean()
sh(f"git -C /repo worktree remove --force {WT}")
json.dump(results, open("/verif/seeded/confirmation.json", "w"), indent=1)
