#!/bin/bash
# usage: sweep_dir.sh <dir-with-Cxx/mK/patch.diff> <out>  — each candidate against its own property's quick check
DIR=$1; OUT=${2:-/tmp/vf-sweep2.log}
: > $OUT
export VERIF_EVIDENCE_DIR=/tmp/vf-mut-evidence VERIF_REPLAY_DIR=/tmp/vf-mut-replays
for d in $DIR/C*/m*; do
  [ -f $d/patch.diff ] || continue
  prop=$(basename $(dirname $d)); id=$prop-$(basename $d)
  cd /repo && git apply $d/patch.diff || { echo "$id APPLY-FAILED" >> $OUT; git -C /repo checkout -- . ; continue; }
  res=$(cd /verif && ./check $prop quick 2>&1 | tail -1)
  echo "$id $res" >> $OUT
  git -C /repo checkout -- . && git -C /repo clean -fdq
done
echo DONE >> $OUT
