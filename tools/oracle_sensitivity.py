#!/usr/bin/env python3
"""Sensitivity of the driver's judgement, per operation kind: take operations the harness produced on the
current tree (all judged OK), give each the *result of another operation of the same kind*, and count how
many the driver still accepts.  A kind whose swapped results are (almost) all accepted is judged by nothing.
Usage: tools/oracle_sensitivity.py [slice ...]   (after ./check prepare)"""
import collections, os, random, subprocess, sys
V = os.path.dirname(os.path.dirname(os.path.abspath(__file__)))
H, D = os.path.join(V, "build", "h.test"), os.path.join(V, "lean", ".lake", "build", "bin", "driver")
slices = sys.argv[1:] or ["corpus", "C02", "C03", "C04", "C05", "C06", "C08", "C09", "C10", "C11", "C12", "C13", "C14", "C15", "C16", "C17", "C18", "C19"]
rng = random.Random(5)
by = collections.defaultdict(list)
for sl in slices:
    env = dict(os.environ, VERIF_CMD="gen", VERIF_SLICE=sl, VERIF_SEED="1", VERIF_TIER="quick", VERIF_FACTS=os.path.join(V, "build", "facts.json"))
    out = subprocess.run([H], cwd=os.environ.get("VERIF_REPO", "/repo"), env=env, stdout=subprocess.PIPE, stderr=subprocess.DEVNULL).stdout.decode("utf-8", "replace")
    for l in out.splitlines():
        if " => " in l and len(l) < 20000:
            by[l.split(" ", 1)[0]].append(l)
print(f"{'kind':12} {'ops':>7} {'swapped':>8} {'distinct-result swaps still OK':>32}")
for k in sorted(by):
    ls = by[k]
    sample = rng.sample(ls, min(len(ls), 300))
    swapped = []
    for l in sample:
        o = rng.choice(ls)
        a, r = l.split(" => ", 1)
        r2 = o.split(" => ", 1)[1]
        if r2 != r:
            swapped.append(a + " => " + r2)
    if not swapped:
        print(f"{k:12} {len(ls):7} {0:8} (all results identical)")
        continue
    res = subprocess.run([D], input="\n".join(swapped) + "\n", stdout=subprocess.PIPE, text=True).stdout.splitlines()
    ok = sum(1 for x in res if x == "OK" or x.startswith("SKIP"))
    print(f"{k:12} {len(ls):7} {len(swapped):8} {ok:8}  ({100.0*ok/len(swapped):.0f}%)")
