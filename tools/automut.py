#!/usr/bin/env python3
"""
Automatic mutation sweep: measures what the ties notice, beyond the hand-made seeded changes.

  automut.py <repo-copy> <verif-dir> <out.jsonl> [--files f1,f2,...] [--max N] [--seed S] [--shard i/n]

For every mutant (one token-level edit of one line of the library: relational operator,
boolean connective, integer literal +-1, arithmetic sign, return true/false, break/continue):
  1. `go build ./... && go test -vet=off -count=1 ./...` in <repo-copy>: mutants the pinned
     suite already kills are not interesting (the task is about changes that pass the suite);
  2. survivors: `VERIF_REPO=<repo-copy> <verif-dir>/check allslices quick` = regenerate Gen, rebuild
     harness and all property theorems, run every correspondence slice; record what noticed.
<repo-copy> must be a scratch copy/worktree (never /repo itself); the file is restored after each mutant.
Survivors of both stages are either equivalent mutants or gaps in the generators: triage by hand.
"""
import json, os, random, re, subprocess, sys, time

ENV = dict(os.environ, GOFLAGS="-mod=mod", GOPROXY="off", GOSUMDB="off", GOTOOLCHAIN="local")

DEFAULT_FILES = ["internal/json/parser.go", "internal/charset/charset.go", "mime.go", "mimetype.go",
                 "internal/magic/magic.go", "internal/magic/text.go", "internal/magic/text_csv.go", "internal/magic/zip.go",
                 "internal/magic/archive.go", "internal/magic/ms_office.go", "internal/magic/binary.go", "internal/magic/ftyp.go",
                 "internal/magic/audio.go", "internal/magic/video.go", "internal/magic/image.go", "internal/magic/document.go",
                 "internal/magic/font.go", "internal/magic/geo.go", "internal/magic/database.go", "internal/magic/ogg.go"]

REL = [("<=", "<"), (">=", ">"), ("==", "!="), ("!=", "=="), ("<", "<="), (">", ">=")]


def mutants_of_line(line):
    """yield (description, new_line)"""
    code = line.split("//")[0]
    if not code.strip() or code.strip().startswith(("import", "package", "func ", "}", "*", "/*")):
        return
    # relational operators (skip generics / channel arrows / shifts)
    for m in re.finditer(r"(?<![<>=!:+\-*/&|^])(<=|>=|==|!=|<|>)(?![<>=])", code):
        op = m.group(1)
        if op in ("<", ">") and (code[m.start() - 1:m.start()] in ("<", ">", "-") or code[m.end():m.end() + 1] in ("-",)):
            continue
        for a, b in REL:
            if a == op:
                yield (f"{op}->{b}", line[:m.start()] + b + line[m.end():])
                break
    for m in re.finditer(r"&&|\|\|", code):
        b = "||" if m.group(0) == "&&" else "&&"
        yield (f"{m.group(0)}->{b}", line[:m.start()] + b + line[m.end():])
    # integer literals (decimal and hex), not inside strings
    if '"' not in code and "'" not in code and "`" not in code:
        for m in re.finditer(r"(?<![\w.])(0[xX][0-9a-fA-F]+|\d+)(?![\w.])", code):
            v = int(m.group(1), 0)
            for d in (1, -1):
                nv = v + d
                if nv < 0:
                    continue
                txt = hex(nv) if m.group(1).lower().startswith("0x") else str(nv)
                yield (f"{m.group(1)}->{txt}", line[:m.start()] + txt + line[m.end():])
    for m in re.finditer(r"(?<=[\w\)\]]) ([+\-]) (?=[\w\(])", code):
        b = "-" if m.group(1) == "+" else "+"
        yield (f"{m.group(1)}->{b}", line[:m.start(1)] + b + line[m.end(1):])
    s = code.strip()
    if s == "return true":
        yield ("return true->false", line.replace("return true", "return false"))
    if s == "return false":
        yield ("return false->true", line.replace("return false", "return true"))
    if s == "continue":
        yield ("continue->break", line.replace("continue", "break"))
    if s == "break":
        yield ("break->continue", line.replace("break", "continue"))
    m = re.match(r"^(\s*)if (.+) \{\s*$", code)
    if m and not m.group(2).startswith("!(") and ";" not in m.group(2):
        yield ("negate-if", f"{m.group(1)}if !({m.group(2)}) {{\n")


def sh(cmd, cwd, timeout, env=ENV):
    try:
        p = subprocess.run(cmd, cwd=cwd, env=env, shell=True, stdout=subprocess.PIPE, stderr=subprocess.STDOUT, text=True,
                           errors="replace", timeout=timeout)
        return p.returncode, p.stdout
    except subprocess.TimeoutExpired:
        return 124, "TIMEOUT"


def main():
    repo, verif, out = sys.argv[1:4]
    if os.path.realpath(repo) == "/repo":
        sys.exit("refusing to mutate /repo itself")
    files, maxn, seed, shard = DEFAULT_FILES, 10 ** 9, 1, (0, 1)
    a = sys.argv[4:]
    while a:
        k = a.pop(0)
        if k == "--files":
            files = a.pop(0).split(",")
        elif k == "--max":
            maxn = int(a.pop(0))
        elif k == "--seed":
            seed = int(a.pop(0))
        elif k == "--shard":
            i, n = a.pop(0).split("/")
            shard = (int(i), int(n))
    allm = []
    for f in files:
        p = os.path.join(repo, f)
        if not os.path.exists(p):
            continue
        lines = open(p).read().splitlines(keepends=True)
        for i, l in enumerate(lines):
            for desc, nl in mutants_of_line(l):
                if nl != l:
                    allm.append((f, i, desc, nl))
    random.Random(seed).shuffle(allm)
    allm = [m for k, m in enumerate(allm) if k % shard[1] == shard[0]][:maxn]
    print(f"{len(allm)} mutants", flush=True)
    env2 = dict(ENV, VERIF_REPO=repo, VERIF_EVIDENCE_DIR="/tmp/vf-automut-ev", VERIF_REPLAY_DIR="/tmp/vf-automut-rp")
    with open(out, "a") as w:
        for f, i, desc, nl in allm:
            p = os.path.join(repo, f)
            orig = open(p).read()
            lines = orig.splitlines(keepends=True)
            old = lines[i]
            lines[i] = nl if nl.endswith("\n") else nl + "\n"
            open(p, "w").write("".join(lines))
            rec = {"file": f, "line": i + 1, "mut": desc, "old": old.strip(), "new": nl.strip()}
            t0 = time.time()
            try:
                rc, o = sh("go build ./... && go test -vet=off -count=1 ./...", repo, 300)
                if rc != 0:
                    rec["result"] = "killed-by-suite" if "FAIL" in o or "panic" in o else ("timeout-suite" if rc == 124 else "does-not-build")
                else:
                    rc, o = sh(f"{verif}/check allslices quick", verif, 1800, env2)
                    noticed = [l[8:] for l in o.splitlines() if l.startswith("NOTICED ")]
                    rec["result"] = "noticed" if noticed else ("SURVIVED" if rc == 0 else "check-error")
                    rec["noticed"] = noticed[:6]
                    if rc != 0 and not noticed:
                        rec["tail"] = o[-400:]
            finally:
                open(p, "w").write(orig)
            rec["secs"] = round(time.time() - t0, 1)
            w.write(json.dumps(rec) + "\n")
            w.flush()
            print(rec["result"], f, i + 1, desc, flush=True)


if __name__ == "__main__":
    main()
