#!/bin/bash
# unchanged-tree soak: the thorough tier under further seeds (usage: sweep_thorough_seeds.sh 12 13 ...)
export VERIF_REPO=${VP_RUN_REPO:-/repo}
./check prepare || echo PREPARE-FAILED
for s in "$@"; do
  for p in C01 C02 C03 C04 C05 C06 C07 C08 C09 C10 C11 C12 C13 C14 C15 C16 C17 C18 C19; do
    echo "thorough seed=$s $(VERIF_SEED=$s ./check $p thorough 2>&1 | tail -1)"
  done
done
echo SWEEP-DONE
