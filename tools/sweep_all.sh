#!/bin/bash
# usage: sweep_all.sh [suffix...]  — every confirmed seeded change against its own property's quick check.
# Works on $VERIF_REPO (default /repo; under `vp run --with-repo` use the run's private copy) and on the
# directory this script lives in, so that a background run is isolated from /verif and /repo.
HERE=$(cd $(dirname $0)/.. && pwd)
export VERIF_REPO=${VERIF_REPO:-${VP_RUN_REPO:-/repo}}
export VERIF_EVIDENCE_DIR=$(mktemp -d) VERIF_REPLAY_DIR=$(mktemp -d)
cd $HERE && ./check prepare >/dev/null 2>&1
sufs="$@"; [ -z "$sufs" ] && sufs="m1 m2 m3 m4 m5 m6 m7 m8"
for suf in $sufs; do
for d in $HERE/seeded/C*-$suf; do
  id=$(basename $d); prop=${id%%-*}
  if [ -n "$VERIF_ONLY" ] && ! echo ",$VERIF_ONLY," | grep -q ",$prop,"; then continue; fi
  ( cd $VERIF_REPO && git apply $d/patch.diff ) || { echo "$id APPLY-FAILED"; continue; }
  res=$(cd $HERE && ./check $prop quick 2>&1 | tail -1)
  echo "$id $res"
  git -C $VERIF_REPO checkout -- . && git -C $VERIF_REPO clean -fdq
done
done
rm -rf $VERIF_EVIDENCE_DIR $VERIF_REPLAY_DIR
echo SWEEP-DONE
