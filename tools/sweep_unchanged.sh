#!/bin/bash
# unchanged-tree sweep: quick over several seeds, then thorough
export VERIF_REPO=$VP_RUN_REPO
./check prepare || echo PREPARE-FAILED
for s in 2 3 4 5 6 7; do
  for p in C01 C02 C03 C04 C05 C06 C07 C08 C09 C10 C11 C12 C13 C14 C15 C16 C17 C18 C19; do
    echo "seed=$s $(VERIF_SEED=$s ./check $p quick 2>&1 | tail -1)"
  done
done
for p in C01 C02 C03 C04 C05 C06 C07 C08 C09 C10 C11 C12 C13 C14 C15 C16 C17 C18 C19; do
  echo "thorough $(VERIF_SEED=11 ./check $p thorough 2>&1 | tail -1)"
done
echo SWEEP-DONE
